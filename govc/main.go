package main

import (
	"flag"
	"fmt"
	"os"
	"sort"
	"strings"

	"golang.org/x/tools/go/ssa"
)

type KnownFinding struct {
	ID, Property, Obligation, Witness, Text string
}

func main() {
	if len(os.Args) < 2 {
		fmt.Fprintln(os.Stderr, "usage: govc check|dump|calls ...")
		os.Exit(2)
	}
	switch os.Args[1] {
	case "check":
		os.Exit(cmdCheck(os.Args[2:]))
	case "dump":
		cmdDump(os.Args[2:])
	case "calls":
		cmdCalls(os.Args[2:])
	case "tags":
		e, err := loadEngine("/repo", nil)
		if err != nil {
			fmt.Println(err)
			os.Exit(2)
		}
		for i := 1; i < e.u.nextTag; i++ {
			fmt.Println(i, typeStr(e.u.tagTypes[i]))
		}
	case "names":
		os.Exit(cmdNames(os.Args[2:]))
	case "replay":
		os.Exit(cmdReplay(os.Args[2:]))
	case "selftest":
		os.Exit(cmdSelftest(os.Args[2:]))
	default:
		fmt.Fprintln(os.Stderr, "unknown command")
		os.Exit(2)
	}
}

func cmdDump(args []string) {
	fs := flag.NewFlagSet("dump", flag.ExitOnError)
	repo := fs.String("repo", "/repo", "")
	fs.Parse(args)
	e, err := loadEngine(*repo, nil)
	if err != nil {
		fmt.Fprintln(os.Stderr, err)
		os.Exit(2)
	}
	for _, n := range fs.Args() {
		f := e.funcs[n]
		if f == nil {
			fmt.Println("no function", n)
			continue
		}
		f.WriteTo(os.Stdout)
		loops := computeLoops(f)
		for h, li := range loops {
			fmt.Printf("# loop %d: header block %d (%s)\n", li.ordinal, h.Index, h.Comment)
		}
	}
}

func cmdCalls(args []string) {
	fs := flag.NewFlagSet("calls", flag.ExitOnError)
	repo := fs.String("repo", "/repo", "")
	fs.Parse(args)
	e, err := loadEngine(*repo, nil)
	if err != nil {
		fmt.Fprintln(os.Stderr, err)
		os.Exit(2)
	}
	ext := map[string][]string{}
	for name, f := range e.funcs {
		for _, b := range f.Blocks {
			for _, in := range b.Instrs {
				if c, ok := in.(*ssa.Call); ok {
					if cal, ok := c.Call.Value.(*ssa.Function); ok && (cal.Pkg == nil || cal.Pkg != e.spkg) {
						if cal.Parent() != nil {
							continue
						}
						ext[fnDisplayName(cal)] = append(ext[fnDisplayName(cal)], name)
					}
				}
			}
		}
	}
	var ks []string
	for k := range ext {
		ks = append(ks, k)
	}
	sort.Strings(ks)
	for _, k := range ks {
		h := ""
		if f := findExt(e, k); f != nil && stdlibHandler(f) != nil {
			h = "[handled]"
		}
		fmt.Printf("%-40s %s %d: %s\n", k, h, len(ext[k]), strings.Join(uniq(ext[k]), ","))
	}
}

func findExt(e *Engine, name string) *ssa.Function {
	for _, f := range e.funcs {
		for _, b := range f.Blocks {
			for _, in := range b.Instrs {
				if c, ok := in.(*ssa.Call); ok {
					if cal, ok := c.Call.Value.(*ssa.Function); ok && fnDisplayName(cal) == name {
						return cal
					}
				}
			}
		}
	}
	return nil
}

func uniq(xs []string) []string {
	m := map[string]bool{}
	var out []string
	for _, x := range xs {
		if !m[x] {
			m[x] = true
			out = append(out, x)
		}
	}
	sort.Strings(out)
	if len(out) > 6 {
		out = append(out[:6], "...")
	}
	return out
}

func cmdReplay(args []string) int {
	if len(args) != 1 {
		fmt.Println("usage: govc replay <replay.json>")
		return 2
	}
	return cmdReplayFile(args[0])
}
func cmdSelftest(args []string) int { fmt.Println("selftest: not yet"); return 0 }
