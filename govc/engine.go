package main

// Loading /repo, parsing contracts, driving verification.

import (
	"fmt"
	"go/ast"
	"go/token"
	"go/types"
	"os"
	"path/filepath"
	"regexp"
	"sort"
	"strings"

	"golang.org/x/tools/go/packages"
	"golang.org/x/tools/go/ssa"
	"golang.org/x/tools/go/ssa/ssautil"
)

type Clause struct {
	Name   string
	Src    string
	E      SExpr
	Pos    token.Position
	Except string // known-finding id carved out of this clause
}

type ModItem struct {
	Kind  string // heap | maps | new | rh | all
	T     types.Type
	E     SExpr // address expression (nil = whole heap / all maps of the type)
	Elems bool  // E is a slice: its elements
	Spare bool  // E is a slice: its spare capacity [len,cap)
	Src   string
}

type Contract struct {
	Func        string
	Props       []string
	Requires    []*Clause
	Assumes     []*Clause
	Excepts     []*Clause // known-finding carve-outs: name = KF id, E = predicate describing the inputs that fail
	Ensures     []*Clause
	Modifies    []*ModItem
	modSrc      []string
	LoopInv     map[int][]*Clause
	Flags       map[string]bool
	Pos         token.Position
	IsIface     bool
	Lemma       bool
	Splits      []string
	rawMods     []rawMod
	Use         map[string]map[string]bool  // callee → the callee's ensures clauses assumed at call sites (default: all)
	Asserts     map[string][]*Clause        // cut points: "before <callee>#<n>" → clauses checked, then assumed
	Ghosts      map[string][]ghostDef       // cut point key → ghost variables bound there
	ExitAsserts []*Clause                   // checked at every return site; may name locals; not exported to callers
	Inline      map[string]bool             // callees executed from their bodies instead of their contracts
	Witness     map[string]map[string]SExpr // clause name → existential variable → witness term (tried at return sites)
}

type ghostDef struct {
	Name string
	E    SExpr
	Pos  token.Position
}

type rawMod struct {
	src string
	pos token.Position
}

type SpecFunc struct {
	Name   string
	Params []SVar
	Body   SExpr
	Src    string
	// Pure: a function of its (scalar) arguments only; it becomes an SMT function
	// symbol with a definitional axiom (unfolded on demand by the solver) instead
	// of being expanded at every use
	Pure bool
	ResT types.Type
}

type Uninterp struct {
	Name     string
	ArgSorts []string
	ResSort  string
	ResT     types.Type
}

type Engine struct {
	dir        string
	fset       *token.FileSet
	pkg        *packages.Package
	prog       *ssa.Program
	spkg       *ssa.Package
	u          *Universe
	contracts  map[string]*Contract // display name → contract
	ifaceCons  map[string]*Contract // "Resource.Get"
	specFuncs  map[string]*SpecFunc
	specConsts map[string]SExpr
	uninterps  map[string]*Uninterp
	axiomSrc   []*Clause
	funcs      map[string]*ssa.Function
	funcIDs    map[*ssa.Function]int
	globals    map[*ssa.Global]*Cell
	recMemo    map[*ssa.Function]bool
	implDone   map[string]bool
	parseErrs  []string
	kfs        map[string]*KnownFinding
}

func loadEngine(dir string, overlay map[string][]byte) (*Engine, error) {
	cfg := &packages.Config{
		Mode:       packages.LoadAllSyntax,
		Dir:        dir,
		BuildFlags: []string{"-tags=verif"},
		Env:        append(os.Environ(), "GOFLAGS=-mod=mod", "GOPROXY=off", "GOSUMDB=off", "GOTOOLCHAIN=local"),
		Overlay:    overlay,
	}
	pkgs, err := packages.Load(cfg, ".")
	if err != nil {
		return nil, err
	}
	if len(pkgs) != 1 {
		return nil, fmt.Errorf("expected one package, got %d", len(pkgs))
	}
	if len(pkgs[0].Errors) > 0 {
		var es []string
		for _, e := range pkgs[0].Errors {
			es = append(es, e.Error())
		}
		return nil, fmt.Errorf("package errors: %s", strings.Join(es, "; "))
	}
	prog, spkgs := ssautil.Packages(pkgs, ssa.NaiveForm)
	spkgs[0].Build()
	e := &Engine{dir: dir, fset: pkgs[0].Fset, pkg: pkgs[0], prog: prog, spkg: spkgs[0],
		contracts: map[string]*Contract{}, ifaceCons: map[string]*Contract{}, specFuncs: map[string]*SpecFunc{},
		specConsts: map[string]SExpr{}, uninterps: map[string]*Uninterp{}, funcs: map[string]*ssa.Function{},
		funcIDs: map[*ssa.Function]int{}, globals: map[*ssa.Global]*Cell{}, recMemo: map[*ssa.Function]bool{}, implDone: map[string]bool{},
		kfs: map[string]*KnownFinding{}}
	e.u = newUniverse(pkgs[0].Types)
	e.collectFuncs()
	e.registerTags()
	e.registerHeapKeys()
	e.parseContracts()
	return e, nil
}

// registerHeapKeys makes the set of per-type heaps and map arrays complete
// before any function is executed: "modifies all" havocs every heap that has a
// key, so a heap first touched after such a call must already be known (else it
// would wrongly start from its entry value).
func (e *Engine) registerHeapKeys() {
	seen := map[string]bool{}
	var walk func(t types.Type)
	walk = func(t types.Type) {
		if t == nil {
			return
		}
		k := typeStr(t)
		if seen[k] {
			return
		}
		seen[k] = true
		if isTime(t) || opaqueStruct(t) {
			return
		}
		switch tt := types.Unalias(t).Underlying().(type) {
		case *types.Pointer:
			e.u.heapKey(tt.Elem())
			walk(tt.Elem())
		case *types.Slice:
			e.u.heapKey(tt.Elem())
			walk(tt.Elem())
		case *types.Array:
			walk(tt.Elem())
		case *types.Map:
			e.u.mapKey(tt)
			walk(tt.Key())
			walk(tt.Elem())
		case *types.Struct:
			for i := 0; i < tt.NumFields(); i++ {
				walk(tt.Field(i).Type())
			}
		case *types.Tuple:
			for i := 0; i < tt.Len(); i++ {
				walk(tt.At(i).Type())
			}
		case *types.Signature:
			walk(tt.Params())
			walk(tt.Results())
		}
	}
	for _, f := range sortedFuncs(e.funcs) {
		if f.Pkg != e.spkg && !(f.Pkg == nil && f.Parent() != nil) {
			continue
		}
		for _, p := range f.Params {
			walk(p.Type())
		}
		for _, b := range f.Blocks {
			for _, in := range b.Instrs {
				if v, ok := in.(ssa.Value); ok {
					walk(v.Type())
				}
			}
		}
	}
}

func (e *Engine) collectFuncs() {
	add := func(f *ssa.Function) {
		if f == nil {
			return
		}
		e.funcs[fnDisplayName(f)] = f
		for _, an := range f.AnonFuncs {
			e.funcs[fnDisplayName(an)] = an
		}
	}
	for _, m := range e.spkg.Members {
		switch x := m.(type) {
		case *ssa.Function:
			add(x)
		case *ssa.Type:
			for _, t := range []types.Type{x.Type(), types.NewPointer(x.Type())} {
				ms := e.prog.MethodSets.MethodSet(t)
				for i := 0; i < ms.Len(); i++ {
					f := e.prog.MethodValue(ms.At(i))
					if f != nil && f.Synthetic == "" {
						add(f)
					}
				}
			}
		}
	}
	// external functions called from the package (assumed contracts may name them)
	for _, f := range sortedFuncs(e.funcs) {
		for _, b := range f.Blocks {
			for _, in := range b.Instrs {
				if c, ok := in.(*ssa.Call); ok {
					if cal, ok := c.Call.Value.(*ssa.Function); ok && cal.Pkg != e.spkg && cal.Parent() == nil {
						if _, dup := e.funcs[fnDisplayName(cal)]; !dup {
							e.funcs[fnDisplayName(cal)] = cal
						}
					}
				}
			}
		}
	}
	// stable function ids
	names := sortedKeys(e.funcs)
	for i, n := range names {
		e.funcIDs[e.funcs[n]] = i + 1
	}
}

func (e *Engine) funcID(f *ssa.Function) int {
	if id, ok := e.funcIDs[f]; ok {
		return id
	}
	id := len(e.funcIDs) + 1000
	e.funcIDs[f] = id
	return id
}

func (e *Engine) globalCell(vc *VC, g *ssa.Global) *Cell {
	if c, ok := e.globals[g]; ok {
		return c
	}
	c := &Cell{id: -len(e.globals) - 1, name: "global_" + g.Name(), T: deref(g.Type())}
	e.globals[g] = c
	return c
}

// registerTags fixes the dynamic-type tag table before any VC is generated.
func (e *Engine) registerTags() {
	seen := map[string]types.Type{}
	for _, f := range e.funcs {
		for _, b := range f.Blocks {
			for _, in := range b.Instrs {
				switch x := in.(type) {
				case *ssa.MakeInterface:
					if _, ok := types.Unalias(x.X.Type()).Underlying().(*types.Interface); !ok {
						seen[typeStr(canonTag(x.X.Type()))] = x.X.Type()
					}
				case *ssa.TypeAssert:
					if _, ok := types.Unalias(x.AssertedType).Underlying().(*types.Interface); !ok {
						seen[typeStr(canonTag(x.AssertedType))] = x.AssertedType
					}
				}
			}
		}
	}
	for _, k := range sortedKeys(seen) {
		e.u.tagOf(seen[k])
	}
}

// implFacts states, once per VC, which known dynamic types implement iface.
func (e *Engine) implFacts(vc *VC, name string, iface *types.Interface) {
	if vc.implSeen[name] {
		return
	}
	vc.implSeen[name] = true
	var tags []int
	for t := range e.u.tagTypes {
		tags = append(tags, t)
	}
	sort.Ints(tags)
	for _, tg := range tags {
		t := e.u.tagTypes[tg]
		if types.Implements(t, iface) {
			vc.assume(fmt.Sprintf("(%s %d)", name, tg))
		} else {
			vc.assume(fmt.Sprintf("(not (%s %d))", name, tg))
		}
	}
}

func (e *Engine) recursive(f *ssa.Function) bool {
	if v, ok := e.recMemo[f]; ok {
		return v
	}
	// f is recursive if it can reach itself through static calls
	seen := map[*ssa.Function]bool{}
	var visit func(g *ssa.Function) bool
	visit = func(g *ssa.Function) bool {
		for _, b := range g.Blocks {
			for _, in := range b.Instrs {
				c, ok := in.(*ssa.Call)
				if !ok {
					continue
				}
				if cal, ok := c.Call.Value.(*ssa.Function); ok {
					if cal == f {
						return true
					}
					if !seen[cal] && cal.Pkg == f.Pkg {
						seen[cal] = true
						if visit(cal) {
							return true
						}
					}
				}
			}
		}
		return false
	}
	r := visit(f)
	e.recMemo[f] = r
	return r
}

func (e *Engine) resolveType(s string) (types.Type, error) {
	s = strings.TrimSpace(s)
	if strings.HasPrefix(s, "*") {
		t, err := e.resolveType(s[1:])
		if err != nil {
			return nil, err
		}
		return types.NewPointer(t), nil
	}
	if strings.HasPrefix(s, "[]") {
		t, err := e.resolveType(s[2:])
		if err != nil {
			return nil, err
		}
		return types.NewSlice(t), nil
	}
	if strings.HasPrefix(s, "map[") {
		d := 0
		for i := 3; i < len(s); i++ {
			if s[i] == '[' {
				d++
			} else if s[i] == ']' {
				d--
				if d == 0 {
					k, err := e.resolveType(s[4:i])
					if err != nil {
						return nil, err
					}
					v, err := e.resolveType(s[i+1:])
					if err != nil {
						return nil, err
					}
					return types.NewMap(k, v), nil
				}
			}
		}
	}
	if i := strings.Index(s, "."); i > 0 && !strings.ContainsAny(s, "[]( ") {
		for _, imp := range e.pkg.Types.Imports() {
			if imp.Name() == s[:i] {
				if o := imp.Scope().Lookup(s[i+1:]); o != nil {
					if tn, ok := o.(*types.TypeName); ok {
						return tn.Type(), nil
					}
				}
			}
		}
	}
	tv, err := types.Eval(e.fset, e.pkg.Types, token.NoPos, s)
	if err != nil {
		return nil, err
	}
	if tv.Type == nil {
		return nil, fmt.Errorf("not a type: %s", s)
	}
	return tv.Type, nil
}

func (e *Engine) contractOf(f *ssa.Function) *Contract {
	return e.contracts[fnDisplayName(f)]
}

func (e *Engine) pureFunc(name string) *pureFunc {
	c, ok := e.contracts[name]
	if !ok || !c.Flags["pure"] {
		return nil
	}
	f := e.funcs[name]
	if f == nil {
		return nil
	}
	return &pureFunc{fn: f, con: c}
}

func (e *Engine) ifaceContract(t types.Type, method string) *Contract {
	n, ok := types.Unalias(t).(*types.Named)
	if !ok {
		// embedded / unnamed: error interface
		return e.ifaceCons["?."+method]
	}
	if c, ok := e.ifaceCons[n.Obj().Name()+"."+method]; ok {
		return c
	}
	return nil
}

// ---- contract files --------------------------------------------------------------------

var clauseName = regexp.MustCompile(`^([A-Za-z_][A-Za-z0-9_\-]*):\s+(.*)$`)
var exceptRe = regexp.MustCompile(`^\[except (KF-[A-Za-z0-9\-]+)\]\s*(.*)$`)

type rawLine struct {
	text string
	pos  token.Position
}

func (e *Engine) parseContracts() {
	var lines []rawLine
	for _, f := range e.pkg.Syntax {
		fn := e.fset.Position(f.Pos()).Filename
		if !strings.HasPrefix(filepath.Base(fn), "verif_") {
			continue
		}
		for _, cg := range f.Comments {
			for _, c := range cg.List {
				t := c.Text
				if strings.HasPrefix(t, "// @") { // gofmt rewrites //@ in doc comments
					t = "//@" + t[4:]
				}
				if strings.HasPrefix(t, "//@") {
					lines = append(lines, rawLine{strings.TrimRight(t[3:], " \t"), e.fset.Position(c.Pos())})
				}
			}
		}
	}
	// join continuation lines: a line starting with '|' continues the previous
	var joined []rawLine
	for _, l := range lines {
		tt := strings.TrimSpace(l.text)
		if strings.HasPrefix(tt, "|") && len(joined) > 0 {
			joined[len(joined)-1].text += " " + strings.TrimSpace(tt[1:])
			continue
		}
		joined = append(joined, rawLine{tt, l.pos})
	}
	var cur *Contract
	perr := func(l rawLine, f string, a ...any) {
		e.parseErrs = append(e.parseErrs, fmt.Sprintf("%s:%d: %s", filepath.Base(l.pos.Filename), l.pos.Line, fmt.Sprintf(f, a...)))
	}
	mkClause := func(l rawLine, rest string, defName string) *Clause {
		c := &Clause{Pos: l.pos}
		if m := clauseName.FindStringSubmatch(rest); m != nil && !strings.HasPrefix(m[2], ":") {
			c.Name, rest = m[1], m[2]
		} else {
			c.Name = defName
		}
		if m := exceptRe.FindStringSubmatch(rest); m != nil {
			c.Except, rest = m[1], m[2]
		}
		c.Src = rest
		ex, err := parseSpec(rest)
		if err != nil {
			perr(l, "%v", err)
			ex = &SBool{false}
		}
		c.E = ex
		return c
	}
	// clauses that are conjunctions become one clause per conjunct (smaller queries)
	mkClauses := func(l rawLine, rest string, defName string) []*Clause {
		c := mkClause(l, rest, defName)
		parts := splitConj(c.E)
		if len(parts) <= 1 {
			return []*Clause{c}
		}
		var out []*Clause
		for i, p := range parts {
			out = append(out, &Clause{Name: fmt.Sprintf("%s.%d", c.Name, i+1), Src: p.String(), E: p, Pos: c.Pos, Except: c.Except})
		}
		return out
	}
	for _, l := range joined {
		if l.text == "" {
			continue
		}
		word, rest := l.text, ""
		if i := strings.IndexAny(l.text, " \t"); i >= 0 {
			word, rest = l.text[:i], strings.TrimSpace(l.text[i+1:])
		}
		switch word {
		case "func", "lemma", "interface":
			if strings.HasSuffix(rest, "+") { // continuation of an existing contract (generated parts)
				if c, ok := e.contracts[strings.TrimSuffix(rest, "+")]; ok {
					cur = c
					continue
				}
				perr(l, "continuation of unknown contract %s", rest)
				cur = nil
				continue
			}
			cur = &Contract{Func: rest, LoopInv: map[int][]*Clause{}, Flags: map[string]bool{}, Pos: l.pos}
			if word == "interface" {
				cur.IsIface = true
				e.ifaceCons[rest] = cur
			} else {
				cur.Lemma = word == "lemma"
				if _, dup := e.contracts[rest]; dup {
					perr(l, "duplicate contract for %s", rest)
				}
				e.contracts[rest] = cur
			}
		case "props":
			if cur != nil {
				cur.Props = strings.Fields(rest)
			}
		case "requires":
			if cur == nil {
				perr(l, "requires outside a contract")
				continue
			}
			cur.Requires = append(cur.Requires, mkClauses(l, rest, fmt.Sprintf("req%d", len(cur.Requires)))...)
		case "except":
			if cur == nil {
				perr(l, "except outside a contract")
				continue
			}
			c := mkClause(l, rest, "")
			if !strings.HasPrefix(c.Name, "KF-") {
				perr(l, "except needs a known-finding id: except KF-...: predicate")
				continue
			}
			cur.Excepts = append(cur.Excepts, c)
		case "assume":
			if cur == nil {
				perr(l, "assume outside a contract")
				continue
			}
			cur.Assumes = append(cur.Assumes, mkClause(l, rest, fmt.Sprintf("assume%d", len(cur.Assumes))))
		case "ghost":
			// ghost before|after <callee>#<n> name = expr — binds a specification
			// variable to the value expr has at that cut point
			if cur == nil {
				perr(l, "ghost outside a contract")
				continue
			}
			f := strings.Fields(rest)
			eqi := strings.Index(rest, "=")
			if len(f) < 5 || (f[0] != "before" && f[0] != "after") || f[3] != "=" || eqi < 0 {
				perr(l, "ghost before|after <callee>#<n> name = expr")
				continue
			}
			ex, err := parseSpec(strings.TrimSpace(rest[eqi+1:]))
			if err != nil {
				perr(l, err.Error())
				continue
			}
			key := f[1]
			if f[0] == "after" {
				key = "after " + key
			}
			if cur.Ghosts == nil {
				cur.Ghosts = map[string][]ghostDef{}
			}
			cur.Ghosts[key] = append(cur.Ghosts[key], ghostDef{Name: f[2], E: ex, Pos: l.pos})
		case "exit-assert":
			// exit-assert name: expr — holds at every return site; may mention locals
			if cur == nil {
				perr(l, "exit-assert outside a contract")
				continue
			}
			cur.ExitAsserts = append(cur.ExitAsserts, mkClauses(l, rest, fmt.Sprintf("exit%d", len(cur.ExitAsserts)))...)
		case "ensures":
			if cur == nil {
				perr(l, "ensures outside a contract")
				continue
			}
			cur.Ensures = append(cur.Ensures, mkClauses(l, rest, fmt.Sprintf("ens%d", len(cur.Ensures)))...)
		case "modifies":
			if cur == nil {
				perr(l, "modifies outside a contract")
				continue
			}
			for _, it := range splitTop(rest, ',') {
				cur.rawMods = append(cur.rawMods, rawMod{strings.TrimSpace(it), l.pos})
			}
		case "loop":
			if cur == nil {
				perr(l, "loop outside a contract")
				continue
			}
			var ord int
			var kw string
			n, _ := fmt.Sscanf(rest, "%d %s", &ord, &kw)
			if n != 2 || kw != "invariant" {
				perr(l, "expected: loop <n> invariant <expr>")
				continue
			}
			i := strings.Index(rest, "invariant")
			cur.LoopInv[ord] = append(cur.LoopInv[ord], mkClauses(l, strings.TrimSpace(rest[i+len("invariant"):]), fmt.Sprintf("inv%d", len(cur.LoopInv[ord])))...)
		case "flag":
			if cur != nil {
				for _, f := range strings.Fields(rest) {
					cur.Flags[f] = true
				}
			}
		case "use":
			// use <callee>: clause clause ...   (assume only these postconditions of the callee)
			if cur == nil {
				perr(l, "use outside a contract")
				continue
			}
			i := strings.Index(rest, ":")
			if i < 0 {
				perr(l, "use <callee>: clause ...")
				continue
			}
			if cur.Use == nil {
				cur.Use = map[string]map[string]bool{}
			}
			cal := strings.TrimSpace(rest[:i])
			if cur.Use[cal] == nil {
				cur.Use[cal] = map[string]bool{}
			}
			for _, n := range strings.Fields(rest[i+1:]) {
				cur.Use[cal][n] = true
			}
		case "inline":
			// inline <callee> ...: the body is executed in place of the contract
			if cur == nil {
				perr(l, "inline outside a contract")
				continue
			}
			if cur.Inline == nil {
				cur.Inline = map[string]bool{}
			}
			for _, n := range strings.Fields(rest) {
				cur.Inline[n] = true
			}
		case "assert":
			// assert before <callee>#<n> <name>: <expr>
			if cur == nil {
				perr(l, "assert outside a contract")
				continue
			}
			f := strings.Fields(rest)
			if len(f) < 3 || (f[0] != "before" && f[0] != "after") {
				perr(l, "assert before|after <callee>#<n> name: expr")
				continue
			}
			key := f[1]
			if f[0] == "after" {
				key = "after " + key
			}
			body := strings.TrimSpace(rest[strings.Index(rest, f[1])+len(f[1]):])
			if cur.Asserts == nil {
				cur.Asserts = map[string][]*Clause{}
			}
			cur.Asserts[key] = append(cur.Asserts[key], mkClauses(l, body, fmt.Sprintf("assert%d", len(cur.Asserts[key])))...)
		case "witness":
			// witness <clause> <var> = <expr>
			if cur == nil {
				perr(l, "witness outside a contract")
				continue
			}
			f := strings.Fields(rest)
			eqi := strings.Index(rest, "=")
			if len(f) < 4 || eqi < 0 {
				perr(l, "witness <clause> <var> = <expr>")
				continue
			}
			ex, err := parseSpec(strings.TrimSpace(rest[eqi+1:]))
			if err != nil {
				perr(l, "%v", err)
				continue
			}
			if cur.Witness == nil {
				cur.Witness = map[string]map[string]SExpr{}
			}
			if cur.Witness[f[0]] == nil {
				cur.Witness[f[0]] = map[string]SExpr{}
			}
			cur.Witness[f[0]][f[1]] = ex
		case "split":
			if cur != nil {
				cur.Splits = append(cur.Splits, rest)
			}
		case "spec":
			e.parseSpecFunc(l, rest, perr)
		case "uninterp":
			e.parseUninterp(l, rest, perr)
		case "axiom":
			e.axiomSrc = append(e.axiomSrc, mkClause(l, rest, fmt.Sprintf("axiom%d", len(e.axiomSrc))))
		case "const":
			// const NAME = expr
			parts := strings.SplitN(rest, "=", 2)
			if len(parts) != 2 {
				perr(l, "const NAME = expr")
				continue
			}
			ex, err := parseSpec(strings.TrimSpace(parts[1]))
			if err != nil {
				perr(l, "%v", err)
				continue
			}
			e.specConsts[strings.TrimSpace(parts[0])] = ex
		case "--", "#":
			// comment
		default:
			perr(l, "unknown directive %q", word)
		}
	}
	// resolve modifies items
	for _, name := range sortedKeys(e.contracts) {
		e.resolveMods(e.contracts[name], perr)
	}
	for _, name := range sortedKeys(e.ifaceCons) {
		e.resolveMods(e.ifaceCons[name], perr)
	}
	// contracts must name existing functions
	for _, name := range sortedKeys(e.contracts) {
		if _, ok := e.funcs[name]; !ok {
			c := e.contracts[name]
			e.parseErrs = append(e.parseErrs, fmt.Sprintf("%s:%d: contract for unknown function %s", filepath.Base(c.Pos.Filename), c.Pos.Line, name))
		}
	}
}

func splitTop(s string, sep byte) []string {
	var out []string
	depth := 0
	start := 0
	for i := 0; i < len(s); i++ {
		switch s[i] {
		case '(', '[', '{':
			depth++
		case ')', ']', '}':
			depth--
		default:
			if s[i] == sep && depth == 0 {
				out = append(out, s[start:i])
				start = i + 1
			}
		}
	}
	if strings.TrimSpace(s[start:]) != "" {
		out = append(out, s[start:])
	}
	return out
}

// modifies items:
//
//	heap[T]            every object of type T
//	*p  (p of type *T) the object p points to
//	elems(s)           the elements of slice s
//	map(m)             the contents of map m
//	maps[map[K]V]      every map of that type
//	new[T]             may allocate objects of type T / maps of type T (nothing existing changes)
//	$rh                the ghost resource-observation state
//	all
func (e *Engine) resolveMods(c *Contract, perr func(rawLine, string, ...any)) {
	for _, rm := range c.rawMods {
		l := rawLine{rm.src, rm.pos}
		s := rm.src
		switch {
		case s == "all":
			c.Modifies = append(c.Modifies, &ModItem{Kind: "all", Src: s})
		case s == "$rh":
			c.Modifies = append(c.Modifies, &ModItem{Kind: "rh", Src: s})
		case strings.HasPrefix(s, "heap[") && strings.HasSuffix(s, "]"):
			t, err := e.resolveType(s[5 : len(s)-1])
			if err != nil {
				perr(l, "%v", err)
				continue
			}
			c.Modifies = append(c.Modifies, &ModItem{Kind: "heap", T: t, Src: s})
		case strings.HasPrefix(s, "maps[") && strings.HasSuffix(s, "]"):
			t, err := e.resolveType(s[5 : len(s)-1])
			if err != nil {
				perr(l, "%v", err)
				continue
			}
			c.Modifies = append(c.Modifies, &ModItem{Kind: "maps", T: t, Src: s})
		case strings.HasPrefix(s, "new[") && strings.HasSuffix(s, "]"):
			t, err := e.resolveType(s[4 : len(s)-1])
			if err != nil {
				perr(l, "%v", err)
				continue
			}
			c.Modifies = append(c.Modifies, &ModItem{Kind: "new", T: t, Src: s})
		default:
			// typed forms: obj[T](expr), elems[T](expr), map[T](expr)
			for _, pf := range []string{"obj[", "elems[", "spare[", "map["} {
				if strings.HasPrefix(s, pf) {
					close := matchBracket(s, len(pf)-1)
					if close < 0 || close+1 >= len(s) || s[close+1] != '(' || !strings.HasSuffix(s, ")") {
						perr(l, "bad modifies item %q", s)
						break
					}
					t, err := e.resolveType(s[len(pf):close])
					if err != nil {
						perr(l, "%v", err)
						break
					}
					ex, err := parseSpec(s[close+2 : len(s)-1])
					if err != nil {
						perr(l, "%v", err)
						break
					}
					switch pf {
					case "obj[":
						c.Modifies = append(c.Modifies, &ModItem{Kind: "heap", T: t, E: ex, Src: s})
					case "elems[":
						c.Modifies = append(c.Modifies, &ModItem{Kind: "heap", T: t, E: ex, Elems: true, Src: s})
					case "spare[":
						c.Modifies = append(c.Modifies, &ModItem{Kind: "heap", T: t, E: ex, Spare: true, Src: s})
					case "map[":
						c.Modifies = append(c.Modifies, &ModItem{Kind: "maps", T: t, E: ex, Src: s})
					}
				}
			}
		}
	}
}

func matchBracket(s string, open int) int {
	d := 0
	for i := open; i < len(s); i++ {
		switch s[i] {
		case '[':
			d++
		case ']':
			d--
			if d == 0 {
				return i
			}
		}
	}
	return -1
}

var specFuncRe = regexp.MustCompile(`^([A-Za-z_][A-Za-z0-9_]*)\((.*?)\)\s*=\s*(.*)$`)

func (e *Engine) parseSpecFunc(l rawLine, rest string, perr func(rawLine, string, ...any)) {
	// name(p1 T1, p2 T2) = body       (types are documentation; values are dynamically typed)
	i := strings.Index(rest, "(")
	if i < 0 {
		perr(l, "bad spec function")
		return
	}
	name := strings.TrimSpace(rest[:i])
	pure := false
	if strings.HasPrefix(name, "pure ") {
		pure = true
		name = strings.TrimSpace(name[5:])
	}
	d := 0
	j := i
	for ; j < len(rest); j++ {
		if rest[j] == '(' {
			d++
		}
		if rest[j] == ')' {
			d--
			if d == 0 {
				break
			}
		}
	}
	if j >= len(rest) {
		perr(l, "bad spec function")
		return
	}
	params := rest[i+1 : j]
	after := strings.TrimSpace(rest[j+1:])
	if !strings.HasPrefix(after, "=") {
		perr(l, "spec function needs '= body'")
		return
	}
	body := strings.TrimSpace(after[1:])
	sf := &SpecFunc{Name: name, Src: body, Pure: pure}
	for _, p := range splitTop(params, ',') {
		f := strings.Fields(strings.TrimSpace(p))
		if len(f) == 0 {
			continue
		}
		t := ""
		if len(f) > 1 {
			t = strings.Join(f[1:], " ")
		}
		sf.Params = append(sf.Params, SVar{f[0], t})
	}
	ex, err := parseSpec(body)
	if err != nil {
		perr(l, "%v", err)
		return
	}
	sf.Body = ex
	if _, dup := e.specFuncs[name]; dup {
		perr(l, "duplicate spec function %s", name)
	}
	e.specFuncs[name] = sf
}

func (e *Engine) parseUninterp(l rawLine, rest string, perr func(rawLine, string, ...any)) {
	// name(T1, T2) R   with Go types or SMT sorts in backquotes
	i := strings.Index(rest, "(")
	j := strings.LastIndex(rest, ")")
	if i < 0 || j < i {
		perr(l, "bad uninterp")
		return
	}
	u := &Uninterp{Name: strings.TrimSpace(rest[:i])}
	conv := func(s string) (string, types.Type) {
		s = strings.TrimSpace(s)
		if strings.HasPrefix(s, "`") {
			return strings.Trim(s, "`"), nil
		}
		t, err := e.resolveType(s)
		if err != nil {
			perr(l, "%v", err)
			return "Int", nil
		}
		return e.u.sortOf(t), t
	}
	for _, a := range splitTop(rest[i+1:j], ',') {
		s, _ := conv(a)
		u.ArgSorts = append(u.ArgSorts, s)
	}
	u.ResSort, u.ResT = conv(rest[j+1:])
	e.uninterps[u.Name] = u
}

var _ = ast.Inspect

func sortedFuncs(m map[string]*ssa.Function) []*ssa.Function {
	var out []*ssa.Function
	for _, k := range sortedKeys(m) {
		out = append(out, m[k])
	}
	return out
}

// splitConj distributes a clause over its top-level conjunctions:
// A && B, P ==> (A && B) and forall x :: (A && B) each become two clauses.
func splitConj(e SExpr) []SExpr {
	switch n := e.(type) {
	case *sParen:
		return splitConj(n.SExpr)
	case *SBinary:
		if n.Op == "&&" {
			return append(splitConj(n.X), splitConj(n.Y)...)
		}
		if n.Op == "==>" {
			rs := splitConj(n.Y)
			if len(rs) > 1 {
				var out []SExpr
				for _, r := range rs {
					out = append(out, &SBinary{"==>", n.X, r})
				}
				return out
			}
		}
	case *SQuant:
		if n.Forall {
			rs := splitConj(n.Body)
			if len(rs) > 1 {
				var out []SExpr
				for _, r := range rs {
					out = append(out, &SQuant{Forall: true, Vars: n.Vars, Body: r})
				}
				return out
			}
		}
	}
	return []SExpr{e}
}

// instantiateWitness replaces positively occurring existential quantifiers over
// a variable with a witness term: proving P(w) proves exists k :: P(k).
func instantiateWitness(e SExpr, wit map[string]SExpr) SExpr {
	switch n := e.(type) {
	case *sParen:
		return &sParen{instantiateWitness(n.SExpr, wit)}
	case *SBinary:
		if n.Op == "&&" || n.Op == "||" {
			return &SBinary{n.Op, instantiateWitness(n.X, wit), instantiateWitness(n.Y, wit)}
		}
		if n.Op == "==>" {
			return &SBinary{n.Op, n.X, instantiateWitness(n.Y, wit)}
		}
	case *SQuant:
		if !n.Forall && len(n.Vars) == 1 {
			if w, ok := wit[n.Vars[0].Name]; ok {
				return substExpr(n.Body, n.Vars[0].Name, w)
			}
		}
		if n.Forall {
			return &SQuant{Forall: true, Vars: n.Vars, Body: instantiateWitness(n.Body, wit)}
		}
	}
	return e
}

// substExpr replaces identifier name by expression w.
func substExpr(x SExpr, name string, w SExpr) SExpr {
	switch n := x.(type) {
	case *SIdent:
		if n.Name == name {
			return w
		}
		return n
	case *sParen:
		return &sParen{substExpr(n.SExpr, name, w)}
	case *SUnary:
		return &SUnary{n.Op, substExpr(n.X, name, w)}
	case *SBinary:
		return &SBinary{n.Op, substExpr(n.X, name, w), substExpr(n.Y, name, w)}
	case *SCall:
		var as []SExpr
		for _, a := range n.Args {
			as = append(as, substExpr(a, name, w))
		}
		return &SCall{n.Fun, as}
	case *SMCall:
		var as []SExpr
		for _, a := range n.Args {
			as = append(as, substExpr(a, name, w))
		}
		return &SMCall{substExpr(n.X, name, w), n.Name, as}
	case *SSel:
		return &SSel{substExpr(n.X, name, w), n.Name}
	case *SIndex:
		return &SIndex{substExpr(n.X, name, w), substExpr(n.I, name, w)}
	case *SSlice:
		var lo, hi SExpr
		if n.Lo != nil {
			lo = substExpr(n.Lo, name, w)
		}
		if n.Hi != nil {
			hi = substExpr(n.Hi, name, w)
		}
		return &SSlice{substExpr(n.X, name, w), lo, hi}
	case *SQuant:
		for _, v := range n.Vars {
			if v.Name == name {
				return n
			}
		}
		return &SQuant{n.Forall, n.Vars, substExpr(n.Body, name, w)}
	}
	return x
}
