package main

// Specification expression language: tokenizer, Pratt parser, AST.

import (
	"fmt"
	"strings"
	"unicode"
)

type SExpr interface{ String() string }

type (
	SIdent struct{ Name string }
	SInt   struct{ V string }
	SStr   struct{ V string }
	SBool  struct{ V bool }
	SNil   struct{}
	SUnary struct {
		Op string
		X  SExpr
	}
	SBinary struct {
		Op   string
		X, Y SExpr
	}
	SCall struct {
		Fun  string
		Args []SExpr
	}
	SMCall struct {
		X    SExpr
		Name string
		Args []SExpr
	}
	SSel struct {
		X    SExpr
		Name string
	}
	SIndex struct{ X, I SExpr }
	SSlice struct{ X, Lo, Hi SExpr }
	SVar   struct{ Name, Type string }
	SQuant struct {
		Forall bool
		Vars   []SVar
		Body   SExpr
	}
	STypeLit struct{ Type string } // type[T]
	SHeapLit struct {
		Type string
		Maps bool
	} // heap[T] / maps[map[K]V]
)

func (e *SIdent) String() string { return e.Name }
func (e *SInt) String() string   { return e.V }
func (e *SStr) String() string   { return fmt.Sprintf("%q", e.V) }
func (e *SBool) String() string  { return fmt.Sprint(e.V) }
func (e *SNil) String() string   { return "nil" }
func (e *SUnary) String() string { return e.Op + e.X.String() }
func (e *SBinary) String() string {
	return "(" + e.X.String() + " " + e.Op + " " + e.Y.String() + ")"
}
func (e *SCall) String() string {
	var a []string
	for _, x := range e.Args {
		a = append(a, x.String())
	}
	return e.Fun + "(" + strings.Join(a, ", ") + ")"
}
func (e *SMCall) String() string {
	var a []string
	for _, x := range e.Args {
		a = append(a, x.String())
	}
	return e.X.String() + "." + e.Name + "(" + strings.Join(a, ", ") + ")"
}
func (e *SSel) String() string   { return e.X.String() + "." + e.Name }
func (e *SIndex) String() string { return e.X.String() + "[" + e.I.String() + "]" }
func (e *SSlice) String() string {
	lo, hi := "", ""
	if e.Lo != nil {
		lo = e.Lo.String()
	}
	if e.Hi != nil {
		hi = e.Hi.String()
	}
	return e.X.String() + "[" + lo + ":" + hi + "]"
}
func (e *SQuant) String() string {
	q := "exists"
	if e.Forall {
		q = "forall"
	}
	var vs []string
	for _, v := range e.Vars {
		vs = append(vs, v.Name+" "+v.Type)
	}
	return "(" + q + " " + strings.Join(vs, ", ") + " :: " + e.Body.String() + ")"
}
func (e *STypeLit) String() string { return "type[" + e.Type + "]" }
func (e *SHeapLit) String() string { return "heap[" + e.Type + "]" }

type tok struct {
	kind string // id int str op eof
	text string
	pos  int
}

type specLexer struct {
	src  string
	toks []tok
}

func lexSpec(src string) ([]tok, error) {
	var toks []tok
	i := 0
	for i < len(src) {
		c := src[i]
		switch {
		case c == ' ' || c == '\t' || c == '\n' || c == '\r':
			i++
		case unicode.IsLetter(rune(c)) || c == '_' || c == '$':
			j := i + 1
			for j < len(src) && (unicode.IsLetter(rune(src[j])) || unicode.IsDigit(rune(src[j])) || src[j] == '_' || src[j] == '#') {
				j++
			}
			toks = append(toks, tok{"id", src[i:j], i})
			i = j
		case c >= '0' && c <= '9':
			j := i + 1
			for j < len(src) && (src[j] >= '0' && src[j] <= '9' || src[j] == '_') {
				j++
			}
			toks = append(toks, tok{"int", strings.ReplaceAll(src[i:j], "_", ""), i})
			i = j
		case c == '"':
			j := i + 1
			var b strings.Builder
			for j < len(src) && src[j] != '"' {
				if src[j] == '\\' && j+1 < len(src) {
					j++
					switch src[j] {
					case 'n':
						b.WriteByte('\n')
					case 't':
						b.WriteByte('\t')
					case '0':
						b.WriteByte(0)
					default:
						b.WriteByte(src[j])
					}
					j++
					continue
				}
				b.WriteByte(src[j])
				j++
			}
			if j >= len(src) {
				return nil, fmt.Errorf("unterminated string at %d", i)
			}
			toks = append(toks, tok{"str", b.String(), i})
			i = j + 1
		default:
			ops := []string{"<==>", "==>", "::", "==", "!=", "<=", ">=", "&&", "||", "!in", "+", "-", "*", "/", "%", "<", ">", "!", "(", ")", "[", "]", ".", ",", ":", "{", "}", "&"}
			matched := false
			for _, op := range ops {
				if strings.HasPrefix(src[i:], op) {
					toks = append(toks, tok{"op", op, i})
					i += len(op)
					matched = true
					break
				}
			}
			if !matched {
				return nil, fmt.Errorf("unexpected character %q at %d in %q", c, i, src)
			}
		}
	}
	toks = append(toks, tok{"eof", "", len(src)})
	return toks, nil
}

type specParser struct {
	src  string
	toks []tok
	p    int
}

func parseSpec(src string) (e SExpr, err error) {
	toks, err := lexSpec(src)
	if err != nil {
		return nil, err
	}
	sp := &specParser{src: src, toks: toks}
	defer func() {
		if r := recover(); r != nil {
			if pe, ok := r.(parseErr); ok {
				err = fmt.Errorf("%s (in %q)", string(pe), src)
				return
			}
			panic(r)
		}
	}()
	e = sp.expr(0)
	if sp.peek().kind != "eof" {
		sp.fail("unexpected %q", sp.peek().text)
	}
	return e, nil
}

type parseErr string

func (sp *specParser) fail(f string, a ...any) { panic(parseErr(fmt.Sprintf(f, a...))) }
func (sp *specParser) peek() tok               { return sp.toks[sp.p] }
func (sp *specParser) next() tok               { t := sp.toks[sp.p]; sp.p++; return t }
func (sp *specParser) isOp(s string) bool {
	t := sp.peek()
	return t.kind == "op" && t.text == s
}
func (sp *specParser) isID(s string) bool {
	t := sp.peek()
	return t.kind == "id" && t.text == s
}
func (sp *specParser) expect(s string) {
	if !sp.isOp(s) {
		sp.fail("expected %q, got %q", s, sp.peek().text)
	}
	sp.p++
}

var binPrec = map[string]int{
	"<==>": 1, "==>": 2, "||": 3, "&&": 4,
	"==": 5, "!=": 5, "<": 5, "<=": 5, ">": 5, ">=": 5, "in": 5, "!in": 5,
	"+": 6, "-": 6, "*": 7, "/": 7, "%": 7,
}

func (sp *specParser) expr(minPrec int) SExpr {
	if sp.isID("forall") || sp.isID("exists") {
		fa := sp.next().text == "forall"
		var vars []SVar
		for {
			n := sp.next()
			if n.kind != "id" {
				sp.fail("expected variable name")
			}
			// type: raw text until ',' or '::' at depth 0
			start := sp.peek().pos
			depth := 0
			for {
				t := sp.peek()
				if t.kind == "eof" {
					sp.fail("unterminated quantifier")
				}
				if depth == 0 && t.kind == "op" && (t.text == "," || t.text == "::") {
					break
				}
				if t.kind == "op" && (t.text == "[" || t.text == "(") {
					depth++
				}
				if t.kind == "op" && (t.text == "]" || t.text == ")") {
					depth--
				}
				sp.p++
			}
			typ := strings.TrimSpace(sp.src[start:sp.peek().pos])
			if typ == "" {
				typ = "int"
			}
			vars = append(vars, SVar{n.text, typ})
			if sp.isOp(",") {
				sp.p++
				continue
			}
			sp.expect("::")
			break
		}
		body := sp.expr(0)
		return &SQuant{Forall: fa, Vars: vars, Body: body}
	}
	lhs := sp.unary()
	for {
		t := sp.peek()
		op := t.text
		if !(t.kind == "op" || (t.kind == "id" && op == "in")) {
			break
		}
		prec, ok := binPrec[op]
		if !ok || prec < minPrec {
			break
		}
		sp.p++
		var rhs SExpr
		if op == "==>" || op == "<==>" {
			rhs = sp.expr(prec) // right assoc
		} else {
			rhs = sp.expr(prec + 1)
		}
		// chained comparisons a <= b < c
		if prec == 5 {
			if b, ok := lhs.(*SBinary); ok && binPrec[b.Op] == 5 && b.Op != "in" && b.Op != "!in" && !isParen(lhs, sp) {
				lhs = &SBinary{"&&", lhs, &SBinary{op, b.Y, rhs}}
				continue
			}
		}
		lhs = &SBinary{op, lhs, rhs}
	}
	return lhs
}

// parenthesised comparisons are wrapped so chaining does not look through them
type sParen struct{ SExpr }

func isParen(e SExpr, sp *specParser) bool { _, ok := e.(*sParen); return ok }

func (sp *specParser) unary() SExpr {
	if sp.isOp("!") {
		sp.p++
		return &SUnary{"!", sp.unary()}
	}
	if sp.isOp("-") {
		sp.p++
		return &SUnary{"-", sp.unary()}
	}
	if sp.isOp("*") {
		sp.p++
		return &SUnary{"*", sp.unary()}
	}
	if sp.isOp("&") {
		sp.p++
		return &SUnary{"&", sp.unary()}
	}
	return sp.postfix(sp.primary())
}

func (sp *specParser) args() []SExpr {
	var as []SExpr
	if sp.isOp(")") {
		sp.p++
		return as
	}
	for {
		as = append(as, sp.expr(0))
		if sp.isOp(",") {
			sp.p++
			continue
		}
		sp.expect(")")
		return as
	}
}

func (sp *specParser) postfix(e SExpr) SExpr {
	for {
		switch {
		case sp.isOp("."):
			sp.p++
			n := sp.next()
			if n.kind != "id" {
				sp.fail("expected field name")
			}
			if sp.isOp("(") {
				sp.p++
				e = &SMCall{e, n.text, sp.args()}
			} else {
				e = &SSel{e, n.text}
			}
		case sp.isOp("["):
			sp.p++
			if sp.isOp(":") {
				sp.p++
				var hi SExpr
				if !sp.isOp("]") {
					hi = sp.expr(0)
				}
				sp.expect("]")
				e = &SSlice{e, nil, hi}
				continue
			}
			i := sp.expr(0)
			if sp.isOp(":") {
				sp.p++
				var hi SExpr
				if !sp.isOp("]") {
					hi = sp.expr(0)
				}
				sp.expect("]")
				e = &SSlice{e, i, hi}
				continue
			}
			sp.expect("]")
			e = &SIndex{e, i}
		default:
			return e
		}
	}
}

func (sp *specParser) primary() SExpr {
	t := sp.next()
	switch t.kind {
	case "int":
		return &SInt{t.text}
	case "str":
		return &SStr{t.text}
	case "id":
		switch t.text {
		case "true":
			return &SBool{true}
		case "false":
			return &SBool{false}
		case "nil":
			return &SNil{}
		case "type", "heap", "maps":
			if sp.isOp("[") {
				sp.p++
				start := sp.peek().pos
				depth := 0
				for {
					x := sp.peek()
					if x.kind == "eof" {
						sp.fail("unterminated type[")
					}
					if x.kind == "op" && x.text == "[" {
						depth++
					}
					if x.kind == "op" && x.text == "]" {
						if depth == 0 {
							break
						}
						depth--
					}
					sp.p++
				}
				typ := strings.TrimSpace(sp.src[start:sp.peek().pos])
				sp.p++
				if t.text == "heap" {
					return &SHeapLit{Type: typ}
				}
				if t.text == "maps" {
					return &SHeapLit{Type: typ, Maps: true}
				}
				return &STypeLit{typ}
			}
		}
		if sp.isOp("(") {
			sp.p++
			return &SCall{t.text, sp.args()}
		}
		return &SIdent{t.text}
	case "op":
		if t.text == "(" {
			e := sp.expr(0)
			sp.expect(")")
			if b, ok := e.(*SBinary); ok && binPrec[b.Op] == 5 {
				return &sParen{e}
			}
			return e
		}
	}
	sp.fail("unexpected %q", t.text)
	return nil
}
