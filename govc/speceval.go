package main

// Evaluation of specification expressions into SMT terms over a symbolic state.

import (
	"fmt"
	"go/constant"
	"go/token"
	"go/types"
	"golang.org/x/tools/go/ssa"
	"strings"
)

type Env struct {
	vc           *VC
	st           *State
	old          *State
	pre          *State // loop entry state (pre(e))
	vars         map[string]*Val
	fr           *Frame
	depth        int
	err          error
	idx          *Val // $idx
	vis          map[string]*Val
	pats         *patCollector
	idxBy        map[int]*Val
	definingPure bool
	lenient      bool // exit assertions: a local that is dead on some path reads as an arbitrary value
}

func (e *Env) with(st *State) *Env {
	n := *e
	n.st = st
	return &n
}

func (e *Env) bind(name string, v *Val) *Env {
	n := *e
	n.vars = make(map[string]*Val, len(e.vars)+1)
	for k, x := range e.vars {
		n.vars[k] = x
	}
	n.vars[name] = v
	return &n
}

func (e *Env) fail(f string, a ...any) *Val {
	if e.err == nil {
		e.err = fmt.Errorf(f, a...)
	}
	return &Val{T: types.Typ[types.Bool], S: "false"}
}

var tBool = types.Typ[types.Bool]
var tInt = types.Typ[types.Int]
var tString = types.Typ[types.String]

// evalBool evaluates a clause; errors make the clause "false" (fail closed for
// obligations; callers must not assume a clause that failed to evaluate).
func (e *Env) evalBool(x SExpr) (res string, rerr error) {
	defer func() {
		if r := recover(); r != nil {
			res, rerr = "false", fmt.Errorf("internal error while evaluating %s: %v", x.String(), r)
		}
	}()
	e.err = nil
	v := e.eval(x)
	if e.err != nil {
		return "false", e.err
	}
	if v.S == "" || e.vc.sortOfVal(v) != "Bool" {
		return "false", fmt.Errorf("clause is not boolean: %s", x.String())
	}
	return v.S, nil
}

func (vc *VC) sortOfVal(v *Val) string {
	if v.Srt != "" {
		return v.Srt
	}
	if v.T == nil {
		return "Int"
	}
	return vc.u.sortOf(v.T)
}

func (e *Env) resolveType(s string) (types.Type, error) {
	s = strings.TrimSpace(s)
	switch s {
	case "int":
		return tInt, nil
	case "string":
		return tString, nil
	case "bool":
		return tBool, nil
	}
	return e.vc.eng.resolveType(s)
}

func (e *Env) eval(x SExpr) *Val {
	vc := e.vc
	u := vc.u
	switch n := x.(type) {
	case *sParen:
		return e.eval(n.SExpr)
	case *SInt:
		return &Val{T: tInt, S: n.V}
	case *SStr:
		return &Val{T: tString, S: smtStr(n.V)}
	case *SBool:
		if n.V {
			return &Val{T: tBool, S: "true"}
		}
		return &Val{T: tBool, S: "false"}
	case *SNil:
		return &Val{T: types.Typ[types.UntypedNil], S: "0"}
	case *STypeLit:
		t, err := e.resolveType(n.Type)
		if err != nil {
			return e.fail("type[%s]: %v", n.Type, err)
		}
		return &Val{T: tInt, S: fmt.Sprint(u.tagOf(t))}
	case *SHeapLit:
		t, err := e.resolveType(n.Type)
		if err != nil {
			return e.fail("heap[%s]: %v", n.Type, err)
		}
		_, h := vc.heap(e.st, t)
		return &Val{T: t, Srt: "(Array Int " + u.sortOf(t) + ")", ElemT: t, S: h}
	case *SIdent:
		return e.ident(n.Name)
	case *SUnary:
		if n.Op == "&" {
			// address of an escaping local (it lives in the heap of its type)
			id, ok := n.X.(*SIdent)
			if !ok || e.fr == nil {
				return e.fail("& needs the name of a local")
			}
			for _, a := range e.fr.allocOrder {
				if a.Comment == id.Name && a.Heap {
					if r, ok := e.fr.regs[a]; ok && r.S != "" {
						return &Val{T: a.Type(), S: r.S}
					}
				}
			}
			if a := e.fr.aliasAlloc[id.Name+"#0"]; a != nil && a.Heap {
				if r, ok := e.fr.regs[a]; ok && r.S != "" {
					return &Val{T: a.Type(), S: r.S}
				}
			}
			return e.fail("&%s: not an escaping local that is live here", id.Name)
		}
		v := e.eval(n.X)
		if n.Op == "*" {
			if v.P != nil {
				return e.vc.load(e.fr, e.st, v.P, token.NoPos)
			}
			el := deref(v.T)
			if el == nil {
				// pure methods with pointer receivers are also applied to values
				return v
			}
			_, h := e.vc.heap(e.st, el)
			return &Val{T: el, S: "(select " + h + " " + v.S + ")"}
		}
		if n.Op == "!" {
			return &Val{T: tBool, S: not(v.S)}
		}
		return &Val{T: tInt, S: "(- " + v.S + ")"}
	case *SBinary:
		return e.binary(n)
	case *SSel:
		return e.sel(e.eval(n.X), n.Name)
	case *SIndex:
		return e.index(e.eval(n.X), e.eval(n.I))
	case *SSlice:
		b := e.eval(n.X)
		lo := "0"
		if n.Lo != nil {
			lo = e.eval(n.Lo).S
		}
		if isStringT(b.T) {
			hi := "(str.len " + b.S + ")"
			if n.Hi != nil {
				hi = e.eval(n.Hi).S
			}
			return &Val{T: b.T, S: fmt.Sprintf("(str.substr %s %s (- %s %s))", b.S, lo, hi, lo)}
		}
		hi := "(slen " + b.S + ")"
		if n.Hi != nil {
			hi = e.eval(n.Hi).S
		}
		return &Val{T: b.T, S: fmt.Sprintf("(mkSlice (+ (sptr %s) %s) (- %s %s) (- (scap %s) %s))", b.S, lo, hi, lo, b.S, lo)}
	case *SQuant:
		ne := e
		var decl []string
		var guards []string
		pats := &patCollector{byVar: map[string][]string{}}
		for _, v := range n.Vars {
			t, err := e.resolveType(v.Type)
			if err != nil {
				return e.fail("quantifier type %q: %v", v.Type, err)
			}
			name := fmt.Sprintf("q_%s_%d", v.Name, e.depth)
			bv := &Val{T: t, S: name}
			// a variable used as an index into a slice is re-expressed as an absolute
			// element address so that triggers are arithmetic-free selects
			if isIntT(t) && e.vc.absQuant {
				if base := findIndexBase(n.Body, v.Name, n.Vars); base != nil {
					be := ne
					bval := be.eval(base)
					if be.err == nil && bval.S != "" && e.vc.sortOfVal(bval) == "Slice" {
						bv = &Val{T: t, S: "(- " + name + " (sptr " + bval.S + "))", absName: name, absBase: bval.S}
					} else if deref(bval.T) != nil {
						// pointer to slice (e.g. *[]T): no rewriting
					}
					be.err = nil
				}
			}
			ne = ne.bind(v.Name, bv)
			decl = append(decl, "("+name+" "+u.sortOf(t)+")")
			if isIntT(t) && t != tInt {
				guards = append(guards, inRange(bv.S, t))
			}
		}
		ne.depth = e.depth + 1
		ne.pats = pats
		body := ne.eval(n.Body)
		if ne.err != nil && e.err == nil {
			e.err = ne.err
		}
		q := "exists"
		b := body.S
		if n.Forall {
			q = "forall"
			if len(guards) > 0 {
				b = implies(and(guards...), b)
			}
		} else if len(guards) > 0 {
			b = and(append(guards, b)...)
		}
		// explicit multi-pattern: one select per absolute-address variable
		pat := ""
		var terms []string
		complete := true
		for _, v := range n.Vars {
			name := fmt.Sprintf("q_%s_%d", v.Name, e.depth)
			if ts := pats.byVar[name]; len(ts) > 0 {
				terms = append(terms, ts[0])
			} else {
				complete = false
			}
		}
		if complete && len(terms) > 0 {
			pat = " :pattern (" + strings.Join(terms, " ") + ")"
			// alternative patterns from the other heaps mentioned with the first variable
			name0 := fmt.Sprintf("q_%s_%d", n.Vars[0].Name, e.depth)
			for _, alt := range pats.byVar[name0][1:] {
				rest := append([]string{alt}, terms[1:]...)
				pat += " :pattern (" + strings.Join(rest, " ") + ")"
			}
			return &Val{T: tBool, S: "(" + q + " (" + strings.Join(decl, " ") + ") (! " + b + pat + "))"}
		}
		return &Val{T: tBool, S: "(" + q + " (" + strings.Join(decl, " ") + ") " + b + ")"}
	case *SCall:
		return e.call(n)
	case *SMCall:
		return e.mcall(n)
	}
	return e.fail("cannot evaluate %T", x)
}

func (e *Env) ident(name string) *Val {
	if v, ok := e.vars[name]; ok {
		return v
	}
	if name == "$rh" {
		return &Val{T: tInt, S: e.st.rh}
	}
	if strings.HasPrefix(name, "$idx#") {
		var n int
		fmt.Sscanf(name[5:], "%d", &n)
		if v, ok := e.idxBy[n]; ok {
			return v
		}
		return e.fail("%s: loop %d has no live range index here", name, n)
	}
	if name == "$idx" {
		if e.idx != nil {
			return e.idx
		}
		return e.fail("$idx outside a range loop")
	}
	if e.fr != nil {
		if v := e.local(name); v != nil {
			return v
		}
	}
	// package-level constant
	if obj := e.vc.u.pkg.Scope().Lookup(name); obj != nil {
		if c, ok := obj.(*types.Const); ok {
			switch c.Val().Kind() {
			case constant.Int:
				return &Val{T: tInt, S: smtIntStr(c.Val().ExactString())}
			case constant.String:
				return &Val{T: tString, S: smtStr(constant.StringVal(c.Val()))}
			case constant.Bool:
				return &Val{T: tBool, S: fmt.Sprint(constant.BoolVal(c.Val()))}
			}
		}
	}
	if sc, ok := e.vc.eng.specConsts[name]; ok {
		return e.eval(sc)
	}
	return e.fail("unknown identifier %q", name)
}

func smtIntStr(s string) string {
	if strings.HasPrefix(s, "-") {
		return "(- " + s[1:] + ")"
	}
	return s
}

// local finds a named local of the frame; name#k selects the k-th declaration.
func (e *Env) local(name string) *Val {
	want := 0
	base := name
	if i := strings.Index(name, "#"); i >= 0 {
		fmt.Sscanf(name[i+1:], "%d", &want)
		base = name[:i]
	}
	k := 0
	for _, a := range e.fr.allocOrder {
		if a.Comment != base {
			continue
		}
		if k == want {
			return e.localValue(a, name, base)
		}
		k++
	}
	// the name the contract was written against may have been renamed in place
	if a := e.fr.aliasAlloc[fmt.Sprintf("%s#%d", base, want)]; a != nil {
		return e.localValue(a, name, base)
	}
	return nil
}

func (e *Env) localValue(a *ssa.Alloc, name, base string) *Val {
	if a.Heap {
		// escaping local: lives in the heap of its type
		r, ok := e.fr.regs[a]
		if ok && r.P != nil {
			return e.vc.load(e.fr, e.st, r.P, token.NoPos)
		}
		if !ok || r.S == "" {
			return e.fail("local %q is not live here", name)
		}
		el := deref(a.Type())
		_, h := e.vc.heap(e.st, el)
		return &Val{T: el, S: "(select " + h + " " + r.S + ")"}
	}
	c := e.fr.cellOf[a]
	if c == nil {
		if e.lenient {
			return e.vc.havocVal(deref(a.Type()), "dead_"+base)
		}
		return e.fail("local %q is not live here", name)
	}
	v, ok := e.st.cells[c]
	if !ok {
		if e.lenient {
			// dead on some path into this point: an arbitrary value (the
			// assertion has to hold whatever it is)
			return e.vc.havocVal(c.T, "dead_"+base)
		}
		return e.fail("local %q is not live here", name)
	}
	return v
}

func (e *Env) derefIfPtr(v *Val) *Val {
	for {
		if v.P != nil {
			return e.vc.load(e.fr, e.st, v.P, token.NoPos)
		}
		el := deref(v.T)
		if el == nil {
			return v
		}
		_, h := e.vc.heap(e.st, el)
		v = &Val{T: el, S: "(select " + h + " " + v.S + ")"}
	}
}

func (e *Env) sel(v *Val, name string) *Val {
	if v.S == "" && v.P == nil {
		return e.fail("selector .%s on non-value", name)
	}
	if deref(v.T) != nil || v.P != nil {
		v = e.derefIfPtr(v)
	}
	st, ok := types.Unalias(v.T).Underlying().(*types.Struct)
	if !ok {
		return e.fail("selector .%s on non-struct %s", name, typeStr(v.T))
	}
	si := e.vc.u.structOf(v.T)
	for i := 0; i < st.NumFields(); i++ {
		if st.Field(i).Name() == name {
			return &Val{T: st.Field(i).Type(), S: "(" + si.fields[i] + " " + v.S + ")"}
		}
	}
	return e.fail("no field %s in %s", name, typeStr(v.T))
}

func (e *Env) index(b, i *Val) *Val {
	vc := e.vc
	if b.Srt != "" && strings.HasPrefix(b.Srt, "(Array") {
		return &Val{T: b.ElemT, Srt: b.ElemSrt, S: "(select " + b.S + " " + i.S + ")"}
	}
	if deref(b.T) != nil {
		b = e.derefIfPtr(b)
	}
	switch bt := types.Unalias(b.T).Underlying().(type) {
	case *types.Slice:
		_, h := vc.heap(e.st, bt.Elem())
		if i.absName != "" {
			addr := i.absName
			if i.absBase != b.S {
				addr = fmt.Sprintf("(+ %s (- (sptr %s) (sptr %s)))", i.absName, b.S, i.absBase)
				if sameSptr(b.S, i.absBase) {
					addr = i.absName
				}
			}
			t := "(select " + h + " " + addr + ")"
			if e.pats != nil && addr == i.absName {
				e.pats.add(i.absName, t)
			}
			return &Val{T: bt.Elem(), S: t}
		}
		return &Val{T: bt.Elem(), S: fmt.Sprintf("(select %s (idx (sptr %s) %s))", h, b.S, i.S)}
	case *types.Map:
		_, _, val, _ := vc.mapArrays(e.st, bt)
		return &Val{T: bt.Elem(), S: fmt.Sprintf("(select (select %s %s) %s)", val, b.S, i.S)}
	case *types.Basic:
		if isStringT(b.T) {
			return &Val{T: tInt, S: fmt.Sprintf("(str.to_code (str.at %s %s))", b.S, i.S)}
		}
	}
	if b.Srt != "" && strings.HasPrefix(b.Srt, "(Array") {
		return &Val{T: b.ElemT, Srt: b.ElemSrt, S: "(select " + b.S + " " + i.S + ")"}
	}
	return e.fail("cannot index %s", typeStr(b.T))
}

func (e *Env) binary(n *SBinary) *Val {
	if n.Op == "in" || n.Op == "!in" {
		k := e.eval(n.X)
		m := e.eval(n.Y)
		if deref(m.T) != nil {
			m = e.derefIfPtr(m)
		}
		var r string
		if mt, ok := types.Unalias(m.T).Underlying().(*types.Map); ok && m.Srt == "" {
			_, dom, _, _ := e.vc.mapArrays(e.st, mt)
			r = fmt.Sprintf("(and (not (= %s 0)) (select (select %s %s) %s))", m.S, dom, m.S, k.S)
		} else if strings.HasPrefix(m.Srt, "(Array") {
			r = "(select " + m.S + " " + k.S + ")"
		} else {
			return e.fail("'in' needs a map or set")
		}
		if n.Op == "!in" {
			r = not(r)
		}
		return &Val{T: tBool, S: r}
	}
	a := e.eval(n.X)
	// short-circuit forms do not matter in logic
	b := e.eval(n.Y)
	bl := func(s string) *Val { return &Val{T: tBool, S: s} }
	switch n.Op {
	case "&&":
		return bl(and(a.S, b.S))
	case "||":
		return bl(or(a.S, b.S))
	case "==>":
		return bl(implies(a.S, b.S))
	case "<==>":
		return bl(eq(a.S, b.S))
	case "==", "!=":
		as, bs := a.S, b.S
		// nil against typed operand
		if isNilT(a.T) && !isNilT(b.T) {
			as = e.vc.u.zero(b.T)
		}
		if isNilT(b.T) && !isNilT(a.T) {
			bs = e.vc.u.zero(a.T)
		}
		r := eq(as, bs)
		if n.Op == "!=" {
			r = not(r)
		}
		return bl(r)
	}
	if isStringT(a.T) && a.Srt == "" {
		switch n.Op {
		case "+":
			return &Val{T: tString, S: "(str.++ " + a.S + " " + b.S + ")"}
		case "<":
			return bl("(str.< " + a.S + " " + b.S + ")")
		case "<=":
			return bl("(str.<= " + a.S + " " + b.S + ")")
		case ">":
			return bl("(str.< " + b.S + " " + a.S + ")")
		case ">=":
			return bl("(str.<= " + b.S + " " + a.S + ")")
		}
	}
	switch n.Op {
	case "<", "<=", ">", ">=":
		return bl("(" + n.Op + " " + a.S + " " + b.S + ")")
	case "+", "-", "*":
		return &Val{T: tInt, S: "(" + n.Op + " " + a.S + " " + b.S + ")"}
	case "/":
		return &Val{T: tInt, S: "(div " + a.S + " " + b.S + ")"}
	case "%":
		return &Val{T: tInt, S: "(mod " + a.S + " " + b.S + ")"}
	}
	return e.fail("bad operator %s", n.Op)
}

func isNilT(t types.Type) bool {
	b, ok := t.(*types.Basic)
	return ok && b.Kind() == types.UntypedNil
}

func (e *Env) call(n *SCall) *Val {
	vc := e.vc
	arg := func(i int) *Val { return e.eval(n.Args[i]) }
	need := func(k int) bool {
		if len(n.Args) != k {
			e.fail("%s expects %d arguments", n.Fun, k)
			return false
		}
		return true
	}
	switch n.Fun {
	case "old":
		if !need(1) {
			return e.fail("")
		}
		if e.old == nil {
			return e.fail("old() not available here")
		}
		ne := e.with(e.old)
		ne.vars = e.vars
		v := ne.eval(n.Args[0])
		if ne.err != nil && e.err == nil {
			e.err = ne.err
		}
		return v
	case "pre":
		if !need(1) {
			return e.fail("")
		}
		if e.pre == nil {
			return e.fail("pre() only inside loop invariants")
		}
		ne := e.with(e.pre)
		v := ne.eval(n.Args[0])
		if ne.err != nil && e.err == nil {
			e.err = ne.err
		}
		return v
	case "len":
		if !need(1) {
			return e.fail("")
		}
		v := arg(0)
		if deref(v.T) != nil {
			v = e.derefIfPtr(v)
		}
		switch vt := types.Unalias(v.T).Underlying().(type) {
		case *types.Slice:
			return &Val{T: tInt, S: "(slen " + v.S + ")"}
		case *types.Map:
			_, _, _, card := vc.mapArrays(e.st, vt)
			return &Val{T: tInt, S: "(select " + card + " " + v.S + ")"}
		case *types.Basic:
			if isStringT(v.T) {
				return &Val{T: tInt, S: "(str.len " + v.S + ")"}
			}
		}
		return e.fail("len of %s", typeStr(v.T))
	case "cap":
		v := arg(0)
		return &Val{T: tInt, S: "(scap " + v.S + ")"}
	case "ptr":
		v := arg(0)
		return &Val{T: tInt, S: "(sptr " + v.S + ")"}
	case "dyn":
		v := arg(0)
		return &Val{T: tInt, S: "(atag " + v.S + ")"}
	case "num":
		return &Val{T: tInt, S: "(anum " + arg(0).S + ")"}
	case "str":
		return &Val{T: tString, S: "(astr " + arg(0).S + ")"}
	case "sl":
		v := arg(0)
		t := types.Type(types.NewSlice(tString))
		if len(n.Args) == 2 {
			if tl, ok := n.Args[1].(*STypeLit); ok {
				tt, err := e.resolveType(tl.Type)
				if err != nil {
					return e.fail("%v", err)
				}
				t = tt
			}
		}
		return &Val{T: t, S: "(asl " + v.S + ")"}
	case "unbox":
		// unbox(v, type[T])
		if !need(2) {
			return e.fail("")
		}
		tl, ok := n.Args[1].(*STypeLit)
		if !ok {
			return e.fail("unbox needs type[T]")
		}
		t, err := e.resolveType(tl.Type)
		if err != nil {
			return e.fail("%v", err)
		}
		return vc.unbox(e.st, arg(0).S, t)
	case "box":
		v := arg(0)
		return e.boxPure(v)
	case "ite":
		if !need(3) {
			return e.fail("")
		}
		c, a, b := arg(0), arg(1), arg(2)
		as, bs := a.S, b.S
		t := a.T
		if isNilT(a.T) {
			as, t = vc.u.zero(b.T), b.T
		}
		if isNilT(b.T) {
			bs = vc.u.zero(a.T)
		}
		return &Val{T: t, Srt: a.Srt, S: ite(c.S, as, bs)}
	case "fresh":
		// address allocated by this call
		v := arg(0)
		if e.old == nil {
			return e.fail("fresh() needs an entry state")
		}
		ref := v.S
		if vc.sortOfVal(v) == "Slice" {
			ref = "(sptr " + v.S + ")"
		}
		return &Val{T: tBool, S: "(>= " + ref + " " + e.old.alloc + ")"}
	case "loopfresh":
		// address allocated since the enclosing loop was entered
		v := arg(0)
		if e.pre == nil {
			return e.fail("loopfresh() only inside loop invariants")
		}
		ref := v.S
		if vc.sortOfVal(v) == "Slice" {
			ref = "(sptr " + v.S + ")"
		}
		return &Val{T: tBool, S: "(>= " + ref + " " + e.pre.alloc + ")"}
	case "implements":
		// implements(v, type[I]): the dynamic type of v (non-nil) implements interface I
		if !need(2) {
			return e.fail("")
		}
		tl, ok := n.Args[1].(*STypeLit)
		if !ok {
			return e.fail("implements(v, type[I])")
		}
		it, err := e.resolveType(tl.Type)
		if err != nil {
			return e.fail("%v", err)
		}
		if _, ok := types.Unalias(it).Underlying().(*types.Interface); !ok {
			return e.fail("implements: %s is not an interface", tl.Type)
		}
		v := arg(0)
		return &Val{T: tBool, S: vc.implementsTerm(v.S, it)}
	case "loopold":
		// object (or whole backing array) allocated before the enclosing loop was entered
		v := arg(0)
		if e.pre == nil {
			return e.fail("loopold() only inside loop invariants")
		}
		ref := v.S
		if vc.sortOfVal(v) == "Slice" {
			ref = "(+ (sptr " + v.S + ") (scap " + v.S + "))"
		}
		return &Val{T: tBool, S: "(< " + ref + " " + e.pre.alloc + ")"}
	case "allocated":
		v := arg(0)
		ref := v.S
		if vc.sortOfVal(v) == "Slice" {
			ref = "(+ (sptr " + v.S + ") (scap " + v.S + "))"
		}
		return &Val{T: tBool, S: "(< " + ref + " " + e.st.alloc + ")"}
	case "prefixof":
		return &Val{T: tBool, S: "(str.prefixof " + arg(0).S + " " + arg(1).S + ")"}
	case "suffixof":
		return &Val{T: tBool, S: "(str.suffixof " + arg(0).S + " " + arg(1).S + ")"}
	case "contains":
		return &Val{T: tBool, S: "(str.contains " + arg(0).S + " " + arg(1).S + ")"}
	case "indexof":
		return &Val{T: tInt, S: "(str.indexof " + arg(0).S + " " + arg(1).S + " 0)"}
	case "substr":
		return &Val{T: tString, S: "(str.substr " + arg(0).S + " " + arg(1).S + " " + arg(2).S + ")"}
	case "visited":
		// visited(k) for the innermost map range, visited#n(k) for the n-th
		return e.visited("", n)
	case "inst":
		return &Val{T: tInt, S: "(tinst " + arg(0).S + ")"}
	case "addrOf":
		// addrOf(s, i): pointer to element i of slice s
		if !need(2) {
			return e.fail("")
		}
		sv, iv := arg(0), arg(1)
		if deref(sv.T) != nil {
			sv = e.derefIfPtr(sv)
		}
		et := sliceElem(sv.T)
		if et == nil {
			return e.fail("addrOf of non-slice")
		}
		if iv.absName != "" && iv.absBase == sv.S {
			return &Val{T: types.NewPointer(et), S: iv.absName}
		}
		return &Val{T: types.NewPointer(et), S: "(idx (sptr " + sv.S + ") " + iv.S + ")"}
	case "unchanged", "loopkept":
		// unchanged(heap[T]): every object of type T that existed at function entry
		// has its entry value; loopkept(heap[T]): every object that existed when
		// the enclosing loop was entered has the value it had then;
		// loopkept(heap[T], s): the same except for the elements of slice s
		if n.Fun == "loopkept" && len(n.Args) == 2 {
			hl, ok := n.Args[0].(*SHeapLit)
			if !ok || hl.Maps || e.pre == nil {
				return e.fail("loopkept(heap[T], slice) inside a loop invariant")
			}
			t, err := e.resolveType(hl.Type)
			if err != nil {
				return e.fail("%v", err)
			}
			sv := arg(1)
			_, h1 := vc.heap(e.st, t)
			_, h0 := vc.heap(e.pre, t)
			if h1 == h0 {
				return &Val{T: tBool, S: "true"}
			}
			qn := fmt.Sprintf("q_un_%d", e.depth)
			return &Val{T: tBool, S: fmt.Sprintf("(forall ((%s Int)) (! (=> (and (< 0 %s) (< %s %s) (not (and (<= (sptr %s) %s) (< %s (+ (sptr %s) (scap %s)))))) (= (select %s %s) (select %s %s))) :pattern ((select %s %s)) :pattern ((select %s %s))))",
				qn, qn, qn, e.pre.alloc, sv.S, qn, qn, sv.S, sv.S, h1, qn, h0, qn, h1, qn, h0, qn)}
		}
		if !need(1) {
			return e.fail("")
		}
		hl, ok := n.Args[0].(*SHeapLit)
		if !ok || e.old == nil {
			return e.fail("unchanged(heap[T]) needs an entry state")
		}
		if n.Fun == "loopkept" {
			if e.pre == nil {
				return e.fail("loopkept() only inside loop invariants")
			}
			ne := *e
			ne.old = e.pre
			e2 := &ne
			r := e2.call(&SCall{Fun: "unchanged", Args: n.Args})
			if e2.err != nil && e.err == nil {
				e.err = e2.err
			}
			return r
		}
		t, err := e.resolveType(hl.Type)
		if err != nil {
			return e.fail("%v", err)
		}
		if hl.Maps {
			mt, ok := types.Unalias(t).Underlying().(*types.Map)
			if !ok {
				return e.fail("maps[...] needs a map type")
			}
			_, d1, v1, _ := vc.mapArrays(e.st, mt)
			_, d0, v0, _ := vc.mapArrays(e.old, mt)
			if d1 == d0 && v1 == v0 {
				return &Val{T: tBool, S: "true"}
			}
			qn := fmt.Sprintf("q_um_%d", e.depth)
			return &Val{T: tBool, S: fmt.Sprintf("(forall ((%s Int)) (! (=> (and (< 0 %s) (< %s %s)) (and (= (select %s %s) (select %s %s)) (= (select %s %s) (select %s %s)))) :pattern ((select %s %s)) :pattern ((select %s %s))))", qn, qn, qn, e.old.alloc, d1, qn, d0, qn, v1, qn, v0, qn, d1, qn, v1, qn)}
		}
		_, h1 := vc.heap(e.st, t)
		_, h0 := vc.heap(e.old, t)
		if h1 == h0 {
			return &Val{T: tBool, S: "true"}
		}
		qn := fmt.Sprintf("q_un_%d", e.depth)
		return &Val{T: tBool, S: fmt.Sprintf("(forall ((%s Int)) (! (=> (and (< 0 %s) (< %s %s)) (= (select %s %s) (select %s %s))) :pattern ((select %s %s)) :pattern ((select %s %s))))", qn, qn, qn, e.old.alloc, h1, qn, h0, qn, h1, qn, h0, qn)}
	case "text":
		// text(b): the string made of the bytes of b (Go's string(b))
		if !need(1) {
			return e.fail("")
		}
		b := arg(0)
		_, h := vc.heap(e.st, byteT)
		vc.u.declareUninterp("bytes2str", []string{"(Array Int Int)", "Slice"}, "String")
		return &Val{T: tString, S: "(bytes2str " + h + " " + b.S + ")"}
	case "zero":
		tl, ok := n.Args[0].(*STypeLit)
		if !ok {
			return e.fail("zero(type[T])")
		}
		t, err := e.resolveType(tl.Type)
		if err != nil {
			return e.fail("%v", err)
		}
		return &Val{T: t, S: vc.u.zero(t)}
	case "sameMap":
		// the map referenced by m (now) has the same contents as at entry
		if !need(1) {
			return e.fail("")
		}
		if e.old == nil {
			return e.fail("sameMap() needs an entry state")
		}
		m := arg(0)
		if deref(m.T) != nil {
			m = e.derefIfPtr(m)
		}
		mt, ok := types.Unalias(m.T).Underlying().(*types.Map)
		if !ok {
			return e.fail("sameMap of non-map")
		}
		_, d1, v1, _ := vc.mapArrays(e.st, mt)
		_, d0, v0, _ := vc.mapArrays(e.old, mt)
		ks := vc.u.sortOf(mt.Key())
		qn := fmt.Sprintf("q_sm_%d", e.depth)
		return &Val{T: tBool, S: fmt.Sprintf("(or (= %s 0) (and (= (select %s %s) (select %s %s)) (forall ((%s %s)) (! (=> (select (select %s %s) %s) (= (select (select %s %s) %s) (select (select %s %s) %s))) :pattern ((select (select %s %s) %s))))))",
			m.S, d1, m.S, d0, m.S, qn, ks, d1, m.S, qn, v1, m.S, qn, v0, m.S, qn, v1, m.S, qn)}
	case "othersSame":
		// every map of m's type other than m itself is unchanged since loop entry
		// (inside invariants) or function entry (elsewhere)
		if !need(1) {
			return e.fail("")
		}
		since := e.pre
		if since == nil {
			since = e.old
		}
		if since == nil {
			return e.fail("othersSame() needs an earlier state")
		}
		m := arg(0)
		if deref(m.T) != nil {
			m = e.derefIfPtr(m)
		}
		mt, ok := types.Unalias(m.T).Underlying().(*types.Map)
		if !ok {
			return e.fail("othersSame of non-map")
		}
		_, d1, v1, c1 := vc.mapArrays(e.st, mt)
		_, d0, v0, c0 := vc.mapArrays(since, mt)
		if d1 == d0 && v1 == v0 {
			return &Val{T: tBool, S: "true"}
		}
		qn := fmt.Sprintf("q_os_%d", e.depth)
		return &Val{T: tBool, S: fmt.Sprintf("(forall ((%s Int)) (! (=> (not (= %s %s)) (and (= (select %s %s) (select %s %s)) (= (select %s %s) (select %s %s)) (= (select %s %s) (select %s %s)))) :pattern ((select %s %s)) :pattern ((select %s %s))))",
			qn, qn, m.S, d1, qn, d0, qn, v1, qn, v0, qn, c1, qn, c0, qn, d1, qn, v1, qn)}
	case "mapdom":
		// mapdom(m) : the key set of m as an array
		m := arg(0)
		if deref(m.T) != nil {
			m = e.derefIfPtr(m)
		}
		mt, ok := types.Unalias(m.T).Underlying().(*types.Map)
		if !ok {
			return e.fail("mapdom of non-map")
		}
		_, dom, _, _ := vc.mapArrays(e.st, mt)
		return &Val{T: m.T, Srt: "(Array " + vc.u.sortOf(mt.Key()) + " Bool)", ElemT: tBool, S: fmt.Sprintf("(ite (= %s 0) ((as const (Array %s Bool)) false) (select %s %s))", m.S, vc.u.sortOf(mt.Key()), dom, m.S)}
	case "mapval":
		m := arg(0)
		if deref(m.T) != nil {
			m = e.derefIfPtr(m)
		}
		mt, ok := types.Unalias(m.T).Underlying().(*types.Map)
		if !ok {
			return e.fail("mapval of non-map")
		}
		_, _, val, _ := vc.mapArrays(e.st, mt)
		return &Val{T: m.T, Srt: "(Array " + vc.u.sortOf(mt.Key()) + " " + vc.u.sortOf(mt.Elem()) + ")", ElemT: mt.Elem(), S: fmt.Sprintf("(select %s %s)", val, m.S)}
	}
	if strings.HasPrefix(n.Fun, "visited#") {
		return e.visited(n.Fun[len("visited#"):], n)
	}
	eng := vc.eng
	if sf, ok := eng.specFuncs[n.Fun]; ok {
		if len(sf.Params) != len(n.Args) {
			return e.fail("%s expects %d arguments", n.Fun, len(sf.Params))
		}
		if sf.Pure && !e.definingPure {
			if v := e.pureSpecApp(sf, n); v != nil {
				return v
			}
		}
		if e.depth > 40 {
			return e.fail("spec function recursion too deep in %s", n.Fun)
		}
		ne := &Env{vc: vc, st: e.st, old: e.old, pre: e.pre, vars: map[string]*Val{}, depth: e.depth + 1, fr: nil, idx: e.idx}
		// quantifier-bound variables stay visible through vars of caller? no: hygiene
		var lets []string
		for i, p := range sf.Params {
			av := e.eval(n.Args[i])
			if len(av.S) > 60 && av.P == nil && av.absName == "" {
				// share long argument terms through an SMT let
				vc.nlet++
				nm := fmt.Sprintf("l_%s_%d", p.Name, vc.nlet)
				lets = append(lets, "("+nm+" "+av.S+")")
				cp := *av
				cp.S = nm
				av = &cp
			}
			ne.vars[p.Name] = av
		}
		ne.pats = e.pats
		// allow old() inside spec functions to refer to caller's old
		v := ne.eval(sf.Body)
		if ne.err != nil && e.err == nil {
			e.err = fmt.Errorf("in %s: %v", n.Fun, ne.err)
		}
		if len(lets) > 0 && v.S != "" {
			cp := *v
			cp.S = "(let (" + strings.Join(lets, " ") + ") " + v.S + ")"
			return &cp
		}
		return v
	}
	if uf, ok := eng.uninterps[n.Fun]; ok {
		var as []string
		for i := range n.Args {
			as = append(as, arg(i).S)
		}
		if e.err != nil {
			// an argument could not be evaluated: nothing may be assumed about the
			// (ill-formed) application
			return &Val{T: uf.ResT, Srt: uf.ResSort, S: "false"}
		}
		vc.u.declareUninterp(uf.Name, uf.ArgSorts, uf.ResSort)
		s := "(" + uf.Name + " " + strings.Join(as, " ") + ")"
		if len(as) == 0 {
			s = uf.Name
		}
		if uf.ResT != nil {
			rv := &Val{T: uf.ResT, S: s}
			// what an observation function returns exists already: its references
			// are below the current allocation counter and it is well-formed
			if !mentionsBound(s) {
				for _, f := range vc.wfFacts(s, uf.ResT, 0) {
					vc.assume(f)
				}
				vc.assumeRefsBelow(e.st, s, uf.ResT)
			}
			return rv
		}
		return &Val{T: uf.ResT, Srt: uf.ResSort, S: s}
	}
	if pf := eng.pureFunc(n.Fun); pf != nil {
		var as []*Val
		for i := range n.Args {
			as = append(as, arg(i))
		}
		return vc.pureApp(e.st, pf, as)
	}
	return e.fail("unknown function %s", n.Fun)
}

func (e *Env) visited(which string, n *SCall) *Val {
	if len(n.Args) != 1 {
		return e.fail("visited(k)")
	}
	k := e.eval(n.Args[0])
	v, ok := e.vis[which]
	if !ok {
		return e.fail("no map range %q in scope for visited()", which)
	}
	return &Val{T: tBool, S: "(select " + v.S + " " + k.S + ")"}
}

// boxPure boxes scalar/string/slice values into Any without allocation.
func (e *Env) boxPure(v *Val) *Val {
	vc := e.vc
	tag := vc.u.tagOf(v.T)
	it := types.NewInterfaceType(nil, nil)
	switch vc.ifaceRepr(v.T) {
	case "num":
		return &Val{T: it, S: fmt.Sprintf("(mkAny %d %s \"\" nil_slice)", tag, v.S)}
	case "bool":
		return &Val{T: it, S: fmt.Sprintf("(mkAny %d (ite %s 1 0) \"\" nil_slice)", tag, v.S)}
	case "str":
		return &Val{T: it, S: fmt.Sprintf("(mkAny %d 0 %s nil_slice)", tag, v.S)}
	case "slice":
		return &Val{T: it, S: fmt.Sprintf("(mkAny %d 0 \"\" %s)", tag, v.S)}
	}
	return e.fail("box() of boxed-representation type %s", typeStr(v.T))
}

func (e *Env) mcall(n *SMCall) *Val {
	// x.Method(args): pure method of the package, by contract
	eng := e.vc.eng
	if id, ok := n.X.(*SIdent); ok {
		if _, isVar := e.vars[id.Name]; !isVar {
			if tn, ok := e.vc.u.pkg.Scope().Lookup(id.Name).(*types.TypeName); ok && tn != nil {
				if pf := eng.pureFunc(id.Name + "." + n.Name); pf != nil {
					var as []*Val
					for _, a := range n.Args {
						as = append(as, e.eval(a))
					}
					return e.vc.pureApp(e.st, pf, as)
				}
				return e.fail("unknown pure method %s.%s", id.Name, n.Name)
			}
		}
	}
	recv := e.eval(n.X)
	t := recv.T
	name := ""
	if p := deref(t); p != nil {
		t = p
	}
	if nn, ok := types.Unalias(t).(*types.Named); ok {
		name = nn.Obj().Name() + "." + n.Name
	}
	if pf := eng.pureFunc(name); pf != nil {
		as := []*Val{recv}
		for _, a := range n.Args {
			as = append(as, e.eval(a))
		}
		// pointer receivers of pure methods take the pointee value
		return e.vc.pureApp(e.st, pf, as)
	}
	return e.fail("unknown pure method %s", name)
}

type patCollector struct{ byVar map[string][]string }

func (p *patCollector) add(v, term string) {
	for _, t := range p.byVar[v] {
		if t == term {
			return
		}
	}
	p.byVar[v] = append(p.byVar[v], term)
}

// sameSptr: cheap syntactic check that two slice terms have the same base pointer.
func sameSptr(a, b string) bool { return a == b }

// findIndexBase returns the slice expression X of the first X[v] in body where X
// does not mention any variable bound by the same quantifier.
func findIndexBase(body SExpr, v string, bound []SVar) SExpr {
	var found SExpr
	mentions := func(x SExpr) bool {
		m := false
		walkSpec(x, func(y SExpr) {
			if id, ok := y.(*SIdent); ok {
				for _, b := range bound {
					if b.Name == id.Name {
						m = true
					}
				}
			}
		})
		return m
	}
	walkSpec(body, func(y SExpr) {
		if found != nil {
			return
		}
		if ix, ok := y.(*SIndex); ok {
			if id, ok := ix.I.(*SIdent); ok && id.Name == v && !mentions(ix.X) {
				found = ix.X
			}
		}
	})
	return found
}

func walkSpec(x SExpr, f func(SExpr)) {
	if x == nil {
		return
	}
	f(x)
	switch n := x.(type) {
	case *sParen:
		walkSpec(n.SExpr, f)
	case *SUnary:
		walkSpec(n.X, f)
	case *SBinary:
		walkSpec(n.X, f)
		walkSpec(n.Y, f)
	case *SCall:
		for _, a := range n.Args {
			walkSpec(a, f)
		}
	case *SMCall:
		walkSpec(n.X, f)
		for _, a := range n.Args {
			walkSpec(a, f)
		}
	case *SSel:
		walkSpec(n.X, f)
	case *SIndex:
		walkSpec(n.X, f)
		walkSpec(n.I, f)
	case *SSlice:
		walkSpec(n.X, f)
		walkSpec(n.Lo, f)
		walkSpec(n.Hi, f)
	case *SQuant:
		walkSpec(n.Body, f)
	}
}

// pureSpecApp applies a `spec pure` function as an SMT function symbol; the
// definitional axiom (forall params :: f(params) == body) is emitted once.
func (e *Env) pureSpecApp(sf *SpecFunc, n *SCall) *Val {
	vc := e.vc
	u := vc.u
	fname := "sp_" + sf.Name
	var ptypes []types.Type
	var sorts []string
	for _, p := range sf.Params {
		t, err := e.resolveType(p.Type)
		if err != nil {
			return nil
		}
		ptypes = append(ptypes, t)
		sorts = append(sorts, u.sortOf(t))
	}
	if _, done := u.uninterpN[fname]; !done {
		// evaluate the body once over bound parameter names to learn the result sort
		de := &Env{vc: vc, st: e.st, old: e.old, vars: map[string]*Val{}, depth: e.depth + 50, definingPure: true}
		var decl []string
		for i, p := range sf.Params {
			nm := fmt.Sprintf("q_%s_%d", p.Name, 900+i)
			de.vars[p.Name] = &Val{T: ptypes[i], S: nm}
			decl = append(decl, "("+nm+" "+sorts[i]+")")
		}
		body := de.eval(sf.Body)
		if de.err != nil || body.S == "" {
			return nil
		}
		// the body must not depend on the state
		for _, bad := range []string{"H0_", "H_", "MD0_", "MD_", "MV0_", "MV_", "MC_", "alloc", "RH"} {
			if strings.Contains(body.S, bad) {
				return nil
			}
		}
		sf.ResT = body.T
		rs := vc.sortOfVal(body)
		var names []string
		for i := range sf.Params {
			names = append(names, fmt.Sprintf("q_%s_%d", sf.Params[i].Name, 900+i))
		}
		u.declareUninterp(fname, sorts, rs)
		app := "(" + fname + " " + strings.Join(names, " ") + ")"
		u.uninterp = append(u.uninterp, fmt.Sprintf("(assert (forall (%s) (! (= %s %s) :pattern (%s))))", strings.Join(decl, " "), app, body.S, app))
	}
	var as []string
	for _, a := range n.Args {
		as = append(as, e.eval(a).S)
	}
	return &Val{T: sf.ResT, S: "(" + fname + " " + strings.Join(as, " ") + ")"}
}
