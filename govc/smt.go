package main

// SMT sorts, Go-type → sort mapping, zero values, heap keys.

import (
	"fmt"
	"go/types"
	"sort"
	"strings"
)

// Universe collects everything that is shared by all queries of one run:
// datatype declarations generated from go/types, the table of dynamic-type
// tags, uninterpreted functions and global axioms.
type Universe struct {
	pkg          *types.Package
	structs      map[string]*structInfo // sort name → info
	structOrd    []string               // declaration order
	tags         map[string]int         // canonical type string → tag
	tagTypes     map[int]types.Type
	nextTag      int
	uninterp     []string          // declare-fun lines
	uninterpN    map[string]string // name → result sort
	axioms       []namedAxiom
	heapKeys     map[string]types.Type // heap key → element type
	mapKeys      map[string]*types.Map
	sizes        types.Sizes
	preludeCache string
}

type namedAxiom struct {
	name string
	smt  string
	src  string
}

type structInfo struct {
	sort   string
	st     *types.Struct
	named  types.Type
	fields []string // accessor names
	fsorts []string
}

func newUniverse(pkg *types.Package) *Universe {
	u := &Universe{
		pkg:       pkg,
		structs:   map[string]*structInfo{},
		tags:      map[string]int{},
		tagTypes:  map[int]types.Type{},
		nextTag:   1,
		uninterpN: map[string]string{},
		heapKeys:  map[string]types.Type{},
		mapKeys:   map[string]*types.Map{},
		sizes:     types.SizesFor("gc", "amd64"),
	}
	return u
}

func typeStr(t types.Type) string {
	return types.TypeString(t, func(p *types.Package) string {
		if p == nil {
			return ""
		}
		if p.Path() == "github.com/mfcochauxlaberge/jsonapi" {
			return ""
		}
		return p.Name()
	})
}

func mangle(s string) string {
	var b strings.Builder
	for _, r := range s {
		switch {
		case r >= 'a' && r <= 'z', r >= 'A' && r <= 'Z', r >= '0' && r <= '9', r == '_':
			b.WriteRune(r)
		case r == '*':
			b.WriteString("P")
		case r == '[':
			b.WriteString("L")
		case r == ']':
			b.WriteString("J")
		case r == '.':
			b.WriteString("_")
		case r == ' ':
		default:
			b.WriteString("x")
		}
	}
	return b.String()
}

func isTime(t types.Type) bool {
	n, ok := t.(*types.Named)
	return ok && n.Obj().Pkg() != nil && n.Obj().Pkg().Path() == "time" && n.Obj().Name() == "Time"
}

func isReflectValue(t types.Type) bool {
	n, ok := t.(*types.Named)
	return ok && n.Obj().Pkg() != nil && n.Obj().Pkg().Path() == "reflect" && n.Obj().Name() == "Value"
}

// opaqueStruct reports struct types from other packages whose contents are not
// modelled: they become an uninterpreted-ish datatype with a single Int id.
func opaqueStruct(t types.Type) bool {
	n, ok := t.(*types.Named)
	if !ok {
		return false
	}
	if _, ok := n.Underlying().(*types.Struct); !ok {
		return false
	}
	p := n.Obj().Pkg()
	if p == nil || p.Path() == "github.com/mfcochauxlaberge/jsonapi" {
		return false
	}
	// plain data structs of other packages are modelled field by field
	switch p.Path() + "." + n.Obj().Name() {
	case "net/url.URL":
		return false
	}
	return true
}

// sortOf returns the SMT sort used for values of Go type t.
func (u *Universe) sortOf(t types.Type) string {
	if isTime(t) {
		return "Time"
	}
	switch tt := t.(type) {
	case *types.Named:
		if opaqueStruct(t) {
			return "Opaque"
		}
		if st, ok := tt.Underlying().(*types.Struct); ok {
			return u.structSort(mangle("S_"+typeStr(t)), st, t)
		}
		return u.sortOf(tt.Underlying())
	case *types.Alias:
		return u.sortOf(types.Unalias(t))
	case *types.Basic:
		switch {
		case tt.Info()&types.IsBoolean != 0:
			return "Bool"
		case tt.Info()&types.IsInteger != 0:
			return "Int"
		case tt.Info()&types.IsString != 0:
			return "String"
		case tt.Info()&types.IsFloat != 0:
			return "Real"
		case tt.Kind() == types.UnsafePointer:
			return "Int"
		case tt.Kind() == types.UntypedNil:
			return "Int"
		}
		return "Int"
	case *types.Pointer, *types.Map, *types.Chan, *types.Signature:
		return "Int"
	case *types.Slice:
		return "Slice"
	case *types.Interface:
		return "Any"
	case *types.Struct:
		return u.structSort(mangle("S_anon_"+typeStr(t)), tt, t)
	case *types.Array:
		return "(Array Int " + u.sortOf(tt.Elem()) + ")"
	case *types.Tuple:
		return "Tuple"
	}
	return "Int"
}

func (u *Universe) structSort(name string, st *types.Struct, named types.Type) string {
	if _, ok := u.structs[name]; ok {
		return name
	}
	si := &structInfo{sort: name, st: st, named: named}
	u.structs[name] = si
	for i := 0; i < st.NumFields(); i++ {
		f := st.Field(i)
		si.fields = append(si.fields, fmt.Sprintf("%s_%s", name, f.Name()))
		si.fsorts = append(si.fsorts, u.sortOf(f.Type()))
	}
	// declared after its field sorts
	u.structOrd = append(u.structOrd, name)
	return name
}

func (u *Universe) structOf(t types.Type) *structInfo {
	s := u.sortOf(t)
	return u.structs[s]
}

// heapKey returns the name of the heap array holding addressable values of
// type t (pointees of *t and elements of []t share it).
func (u *Universe) heapKey(t types.Type) string {
	t = types.Unalias(t)
	// named non-struct types share the heap of their underlying type when the
	// underlying type is basic (e.g. json.RawMessage → []uint8 is a slice:
	// keep distinct heaps per sort-equivalent type string of the *element*).
	k := mangle(typeStr(canonElem(t)))
	if _, ok := u.heapKeys[k]; !ok {
		u.heapKeys[k] = canonElem(t)
	}
	return k
}

// canonElem normalises types whose representation is identical so that
// conversions between them (json.RawMessage ↔ []byte, Identifiers ↔
// []Identifier, Meta ↔ map[string]any) need no copying.
func canonElem(t types.Type) types.Type {
	t = types.Unalias(t)
	if b, ok := t.(*types.Basic); ok {
		// byte and rune are spelled differently but identical to uint8 and int32
		switch b.Kind() {
		case types.Uint8:
			return types.Typ[types.Uint8]
		case types.Int32:
			return types.Typ[types.Int32]
		}
		return t
	}
	if n, ok := t.(*types.Named); ok {
		switch n.Underlying().(type) {
		case *types.Struct, *types.Interface:
			return t
		default:
			return canonElem(n.Underlying())
		}
	}
	switch tt := t.(type) {
	case *types.Slice:
		return types.NewSlice(canonElem(tt.Elem()))
	case *types.Pointer:
		return types.NewPointer(canonElem(tt.Elem()))
	case *types.Map:
		return types.NewMap(canonElem(tt.Key()), canonElem(tt.Elem()))
	case *types.Interface:
		if tt.Empty() {
			return types.NewInterfaceType(nil, nil)
		}
	}
	return t
}

func (u *Universe) mapKey(t *types.Map) string {
	c := canonElem(t).(*types.Map)
	k := mangle(typeStr(c.Key()) + "_to_" + typeStr(c.Elem()))
	if _, ok := u.mapKeys[k]; !ok {
		u.mapKeys[k] = c
	}
	return k
}

// tagOf returns the dynamic-type tag for a concrete Go type.
func (u *Universe) tagOf(t types.Type) int {
	k := typeStr(canonTag(t))
	if v, ok := u.tags[k]; ok {
		return v
	}
	v := u.nextTag
	u.nextTag++
	u.tags[k] = v
	u.tagTypes[v] = t
	return v
}

// canonTag: dynamic types are distinguished by their *named* identity, unlike
// heaps; only aliases are removed.
func canonTag(t types.Type) types.Type {
	t = types.Unalias(t)
	switch tt := t.(type) {
	case *types.Basic:
		return canonElem(t)
	case *types.Slice:
		return types.NewSlice(canonTag(tt.Elem()))
	case *types.Pointer:
		return types.NewPointer(canonTag(tt.Elem()))
	}
	return t
}

func (u *Universe) declareUninterp(name string, args []string, res string) {
	if _, ok := u.uninterpN[name]; ok {
		return
	}
	u.uninterpN[name] = res
	u.uninterp = append(u.uninterp, fmt.Sprintf("(declare-fun %s (%s) %s)", name, strings.Join(args, " "), res))
	if name == "bytes2str" {
		// string(b) has as many bytes as b
		u.uninterp = append(u.uninterp, "(assert (forall ((h (Array Int Int)) (s Slice)) (! (=> (>= (slen s) 0) (= (str.len (bytes2str h s)) (slen s))) :pattern ((bytes2str h s)))))")
	}
}

// zero returns the SMT term of the zero value of t.
func (u *Universe) zero(t types.Type) string {
	if isTime(t) {
		return "time_zero"
	}
	s := u.sortOf(t)
	switch s {
	case "Bool":
		return "false"
	case "Int":
		return "0"
	case "String":
		return "\"\""
	case "Real":
		return "0.0"
	case "Slice":
		return "nil_slice"
	case "Any":
		return "nil_any"
	case "Opaque":
		return "(mkOpaque 0)"
	}
	if si, ok := u.structs[s]; ok {
		if si.st.NumFields() == 0 {
			return "mk_" + s
		}
		parts := []string{"(mk_" + s}
		for i := 0; i < si.st.NumFields(); i++ {
			parts = append(parts, u.zero(si.st.Field(i).Type()))
		}
		return strings.Join(parts, " ") + ")"
	}
	if a, ok := types.Unalias(t).Underlying().(*types.Array); ok {
		return fmt.Sprintf("((as const %s) %s)", s, u.zero(a.Elem()))
	}
	return "0"
}

// prelude emits the fixed declarations plus every struct datatype seen so far.
// prelude is computed once, after every VC of the run has been generated
// (queries are rendered concurrently afterwards).
func (u *Universe) prelude() string {
	if u.preludeCache != "" {
		return u.preludeCache
	}
	return u.buildPrelude()
}

func (u *Universe) freezePrelude() { u.preludeCache = u.buildPrelude() }

func (u *Universe) buildPrelude() string {
	var b strings.Builder
	b.WriteString("(declare-datatypes ((Slice 0)) (((mkSlice (sptr Int) (slen Int) (scap Int)))))\n")
	b.WriteString("(declare-datatypes ((Any 0)) (((mkAny (atag Int) (anum Int) (astr String) (asl Slice)))))\n")
	b.WriteString("(declare-datatypes ((Time 0)) (((mkTime (tinst Int) (trep Int)))))\n")
	b.WriteString("(declare-datatypes ((Opaque 0)) (((mkOpaque (oid Int)))))\n")
	b.WriteString("(define-fun nil_slice () Slice (mkSlice 0 0 0))\n")
	b.WriteString("(define-fun nil_any () Any (mkAny 0 0 \"\" nil_slice))\n")
	b.WriteString("(declare-const time_zero Time)\n")
	// element addresses go through idx so that quantifiers over slice indices
	// have arithmetic-free triggers
	b.WriteString("(declare-fun idx (Int Int) Int)\n")
	b.WriteString("(assert (forall ((b Int) (i Int)) (! (= (idx b i) (+ b i)) :pattern ((idx b i)))))\n")
	for _, n := range u.structOrd {
		si := u.structs[n]
		if len(si.fields) == 0 {
			fmt.Fprintf(&b, "(declare-datatypes ((%s 0)) (((mk_%s))))\n", n, n)
			continue
		}
		fmt.Fprintf(&b, "(declare-datatypes ((%s 0)) (((mk_%s", n, n)
		for i, f := range si.fields {
			fmt.Fprintf(&b, " (%s %s)", f, si.fsorts[i])
		}
		b.WriteString("))))\n")
	}
	b.WriteString(u.wfAnyDef())
	for _, l := range u.uninterp {
		if strings.HasPrefix(l, "(assert") {
			// axioms about uninterpreted functions are added per query, only
			// where the function occurs (condAxioms)
			continue
		}
		b.WriteString(l)
		b.WriteString("\n")
	}
	return b.String()
}

// condAxioms returns the prelude axioms (and user axioms) relevant to a query
// body: those that mention an uninterpreted function occurring in the body or
// in an axiom already selected. Axioms that mention no uninterpreted function
// are always included.
func (u *Universe) condAxioms(body string, user []string) string {
	type ax struct {
		text  string
		names []string
		in    bool
	}
	var all []*ax
	add := func(t string) {
		a := &ax{text: t}
		for n := range u.uninterpN {
			if strings.Contains(t, "("+n+" ") {
				a.names = append(a.names, n)
			}
		}
		all = append(all, a)
	}
	for _, l := range u.uninterp {
		if strings.HasPrefix(l, "(assert") {
			add(l)
		}
	}
	for _, l := range user {
		add(l)
	}
	var out strings.Builder
	seen := map[string]bool{}
	present := func(n string) bool {
		if v, ok := seen[n]; ok {
			return v
		}
		v := strings.Contains(body, "("+n+" ")
		seen[n] = v
		return v
	}
	for changed := true; changed; {
		changed = false
		for _, a := range all {
			if a.in {
				continue
			}
			use := len(a.names) == 0
			for _, n := range a.names {
				if present(n) {
					use = true
				}
			}
			if use {
				a.in = true
				changed = true
				for _, n := range a.names {
					seen[n] = true
				}
			}
		}
	}
	for _, a := range all {
		if a.in {
			out.WriteString(a.text)
			out.WriteString("\n")
		}
	}
	return out.String()
}

// intRange returns lo, hi (as decimal strings) for an integer type, ok=false otherwise.
func intRange(t types.Type) (lo, hi string, ok bool) {
	if t == nil {
		return "", "", false
	}
	b, isb := types.Unalias(t).Underlying().(*types.Basic)
	if !isb || b.Info()&types.IsInteger == 0 {
		return "", "", false
	}
	switch b.Kind() {
	case types.Int8:
		return "(- 128)", "127", true
	case types.Int16:
		return "(- 32768)", "32767", true
	case types.Int32:
		return "(- 2147483648)", "2147483647", true
	case types.Int, types.Int64, types.UntypedInt:
		return "(- 9223372036854775808)", "9223372036854775807", true
	case types.Uint8:
		return "0", "255", true
	case types.Uint16:
		return "0", "65535", true
	case types.Uint32:
		return "0", "4294967295", true
	case types.Uint, types.Uint64, types.Uintptr:
		return "0", "18446744073709551615", true
	case types.UntypedRune:
		return "(- 2147483648)", "2147483647", true
	}
	return "", "", false
}

func intBits(t types.Type) (bits int, signed bool) {
	b := types.Unalias(t).Underlying().(*types.Basic)
	switch b.Kind() {
	case types.Int8:
		return 8, true
	case types.Int16:
		return 16, true
	case types.Int32, types.UntypedRune:
		return 32, true
	case types.Int, types.Int64, types.UntypedInt:
		return 64, true
	case types.Uint8:
		return 8, false
	case types.Uint16:
		return 16, false
	case types.Uint32:
		return 32, false
	}
	return 64, false
}

func pow2(n int) string {
	switch n {
	case 8:
		return "256"
	case 16:
		return "65536"
	case 32:
		return "4294967296"
	case 64:
		return "18446744073709551616"
	case 7:
		return "128"
	case 15:
		return "32768"
	case 31:
		return "2147483648"
	case 63:
		return "9223372036854775808"
	}
	panic("pow2")
}

// wrap returns the term for converting the mathematical integer x into the
// range of integer type t (two's complement wrap-around).
func wrapInt(x string, t types.Type) string {
	bits, signed := intBits(t)
	m := pow2(bits)
	if !signed {
		return fmt.Sprintf("(mod %s %s)", x, m)
	}
	h := pow2(bits - 1)
	return fmt.Sprintf("(- (mod (+ %s %s) %s) %s)", x, h, m, h)
}

func inRange(x string, t types.Type) string {
	lo, hi, ok := intRange(t)
	if !ok {
		return "true"
	}
	return fmt.Sprintf("(and (<= %s %s) (<= %s %s))", lo, x, x, hi)
}

func sortedKeys[V any](m map[string]V) []string {
	ks := make([]string, 0, len(m))
	for k := range m {
		ks = append(ks, k)
	}
	sort.Strings(ks)
	return ks
}

func smtStr(s string) string {
	var b strings.Builder
	b.WriteByte('"')
	for i := 0; i < len(s); i++ {
		c := s[i]
		switch {
		case c == '"':
			b.WriteString("\"\"")
		case c < 32 || c > 126 || c == '\\':
			fmt.Fprintf(&b, "\\u{%x}", c)
		default:
			b.WriteByte(c)
		}
	}
	b.WriteByte('"')
	return b.String()
}

func smtInt(v int64) string {
	if v < 0 {
		if v == -9223372036854775808 {
			return "(- 9223372036854775808)"
		}
		return fmt.Sprintf("(- %d)", -v)
	}
	return fmt.Sprintf("%d", v)
}

func and(xs ...string) string {
	var ys []string
	for _, x := range xs {
		if x == "true" || x == "" {
			continue
		}
		if x == "false" {
			return "false"
		}
		ys = append(ys, x)
	}
	switch len(ys) {
	case 0:
		return "true"
	case 1:
		return ys[0]
	}
	return "(and " + strings.Join(ys, " ") + ")"
}

func or(xs ...string) string {
	var ys []string
	for _, x := range xs {
		if x == "false" || x == "" {
			continue
		}
		if x == "true" {
			return "true"
		}
		ys = append(ys, x)
	}
	switch len(ys) {
	case 0:
		return "false"
	case 1:
		return ys[0]
	}
	return "(or " + strings.Join(ys, " ") + ")"
}

func not(x string) string {
	switch x {
	case "true":
		return "false"
	case "false":
		return "true"
	}
	if strings.HasPrefix(x, "(not ") && strings.HasSuffix(x, ")") {
		inner := x[5 : len(x)-1]
		if balanced(inner) {
			return inner
		}
	}
	return "(not " + x + ")"
}

func balanced(s string) bool {
	d := 0
	inStr := false
	for i := 0; i < len(s); i++ {
		c := s[i]
		if inStr {
			if c == '"' {
				inStr = false
			}
			continue
		}
		switch c {
		case '"':
			inStr = true
		case '(':
			d++
		case ')':
			d--
			if d < 0 {
				return false
			}
		case ' ':
			if d == 0 {
				return false
			}
		}
	}
	return d == 0
}

func implies(a, b string) string {
	if a == "true" {
		return b
	}
	if b == "true" {
		return "true"
	}
	return "(=> " + a + " " + b + ")"
}

func ite(c, a, b string) string {
	if c == "true" {
		return a
	}
	if c == "false" {
		return b
	}
	if a == b {
		return a
	}
	return "(ite " + c + " " + a + " " + b + ")"
}

func eq(a, b string) string {
	if a == b {
		return "true"
	}
	return "(= " + a + " " + b + ")"
}

// wfAnyDef: representation invariant of interface values: the payload slots
// not used by the dynamic type hold their zero value, booleans are 0/1,
// nil has no payload.
func (u *Universe) wfAnyDef() string {
	byRepr := map[string][]string{}
	var tags []int
	for t := range u.tagTypes {
		tags = append(tags, t)
	}
	sort.Ints(tags)
	for _, tg := range tags {
		t := u.tagTypes[tg]
		r := "box"
		if !isTime(t) {
			switch u.sortOf(t) {
			case "Int":
				r = "num"
			case "Bool":
				r = "bool"
			case "String":
				r = "str"
			case "Slice":
				r = "slice"
			}
		}
		byRepr[r] = append(byRepr[r], fmt.Sprintf("(= (atag a) %d)", tg))
	}
	var cs []string
	cs = append(cs, "(>= (atag a) 0)", "(=> (= (atag a) 0) (= a nil_any))")
	if l := byRepr["num"]; len(l) > 0 {
		cs = append(cs, "(=> "+or(l...)+" (and (= (astr a) \"\") (= (asl a) nil_slice)))")
	}
	if l := byRepr["box"]; len(l) > 0 {
		cs = append(cs, "(=> "+or(l...)+" (and (= (astr a) \"\") (= (asl a) nil_slice) (> (anum a) 0)))")
	}
	if l := byRepr["bool"]; len(l) > 0 {
		cs = append(cs, "(=> "+or(l...)+" (and (= (astr a) \"\") (= (asl a) nil_slice) (or (= (anum a) 0) (= (anum a) 1))))")
	}
	if l := byRepr["str"]; len(l) > 0 {
		cs = append(cs, "(=> "+or(l...)+" (and (= (anum a) 0) (= (asl a) nil_slice)))")
	}
	if l := byRepr["slice"]; len(l) > 0 {
		cs = append(cs, "(=> "+or(l...)+" (and (= (anum a) 0) (= (astr a) \"\") (>= (sptr (asl a)) 0) (>= (slen (asl a)) 0) (<= (slen (asl a)) (scap (asl a))) (<= (scap (asl a)) 9223372036854775807) (=> (= (sptr (asl a)) 0) (= (scap (asl a)) 0))))")
	}
	// any_ref: the highest address an interface value refers to (0 if none)
	var refTags []string
	for _, tg := range tags {
		t := u.tagTypes[tg]
		switch types.Unalias(t).Underlying().(type) {
		case *types.Pointer, *types.Map:
			refTags = append(refTags, fmt.Sprintf("(= (atag a) %d)", tg))
		default:
			if isTime(t) || (u.sortOf(t) != "Int" && u.sortOf(t) != "Bool" && u.sortOf(t) != "String" && u.sortOf(t) != "Slice" && u.sortOf(t) != "Real") {
				refTags = append(refTags, fmt.Sprintf("(= (atag a) %d)", tg))
			}
		}
	}
	refDef := "(define-fun any_ref ((a Any)) Int (ite " + or(refTags...) + " (anum a) (+ (sptr (asl a)) (scap (asl a)))))\n"
	return "(define-fun wf_any ((a Any)) Bool (and " + strings.Join(cs, " ") + "))\n" + refDef
}
