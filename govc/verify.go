package main

// Verifying one function against its contract.

import (
	"fmt"
	"go/token"
	"go/types"
	"sort"
	"strings"

	"golang.org/x/tools/go/ssa"
)

func (fr *Frame) prepare() {
	fr.rangeOf = map[*ssa.Range]*rangeState{}
	fr.rangeOrd = map[*ssa.Range]int{}
	fr.allocOrder = nil
	var allocs []*ssa.Alloc
	nr := 0
	for _, b := range fr.fn.Blocks {
		for _, in := range b.Instrs {
			switch x := in.(type) {
			case *ssa.Alloc:
				allocs = append(allocs, x)
			case *ssa.Range:
				fr.rangeOrd[x] = nr
				nr++
			}
		}
	}
	sort.SliceStable(allocs, func(i, j int) bool { return allocs[i].Pos() < allocs[j].Pos() })
	fr.allocOrder = allocs
	fr.aliasAlloc = aliasAllocs(fr.fn, allocs)
}

func (e *Engine) newVC(name string, props []string) *VC {
	return &VC{curBlk: -1, cutFacts: map[int]bool{}, u: e.u, eng: e, fnName: name, props: props, assumed: map[string]bool{}, inlined: map[string]bool{},
		uncontr: map[string]bool{}, pureSeen: map[string]bool{}, implSeen: map[string]bool{}}
}

// verifyFunc generates the obligations of one function under contract.
func (e *Engine) verifyFunc(name string) (*VC, error) {
	return e.verifyFuncMode(name, "")
}

// verifyFuncMode: with kf == "" the function is verified outside every
// known-finding carve-out; with kf == "KF-x" it is verified *inside* that
// carve-out (the obligations that fail there are the known finding itself and
// are matched against KNOWN_FINDINGS.txt by their name prefix).
func (e *Engine) verifyFuncMode(name, kf string) (*VC, error) {
	fn := e.funcs[name]
	con := e.contracts[name]
	if fn == nil {
		return nil, fmt.Errorf("no function %s", name)
	}
	if con == nil {
		con = &Contract{Func: name, LoopInv: map[int][]*Clause{}, Flags: map[string]bool{}}
	}
	vc := e.newVC(name, con.Props)
	if kf != "" {
		vc.fnName = name + "[" + kf + "]"
	}
	vc.verifyingBody = true
	vc.absQuant = con.Flags["absolute-quantifiers"]
	if fn.Blocks == nil {
		return nil, fmt.Errorf("function %s has no body", name)
	}
	st := &State{reach: "true", cells: map[*Cell]*Val{}, heaps: map[string]string{}, mdom: map[string]string{}, mval: map[string]string{}, mcard: map[string]string{}}
	a0 := "alloc0"
	vc.declareGlobal(a0, "Int")
	vc.globals = append(vc.globals, "(assert (> alloc0 0))")
	vc.alloc0 = a0
	st.alloc = a0
	st.rh = vc.fresh("RH0", "Int")
	var params []*Val
	for _, p := range fn.Params {
		v := vc.havocVal(p.Type(), "p_"+p.Name())
		vc.assumeRefsBelow(st, v.S, p.Type())
		params = append(params, v)
	}
	var binds []*Val
	for _, fv := range fn.FreeVars {
		v := vc.havocVal(fv.Type(), "fv_"+fv.Name())
		binds = append(binds, v)
	}
	vc.params = params
	vc.topCon = con
	fr := &Frame{fn: fn, params: params, binds: binds, con: con, entry: st.clone()}
	fr.prepare()
	fr.specVars = specVarsFor(fn, params, nil)
	for i, fv := range fn.FreeVars {
		fr.specVars[fv.Name()] = binds[i]
		if deref(fv.Type()) != nil {
			vc.assume("(> " + binds[i].S + " 0)") // captured variables are never nil
		}
	}
	// global axioms
	for _, ax := range e.axiomSrc {
		env := &Env{vc: vc, st: st, vars: map[string]*Val{}}
		g, err := env.evalBool(ax.E)
		if err != nil {
			vc.oblige(st, "spec-error", "axiom/"+ax.Name, "false", ax.Pos, err.Error())
			continue
		}
		vc.assume(g)
		vc.assumed["axiom:"+ax.Name] = true
	}
	// preconditions
	env := &Env{vc: vc, st: st, old: st, vars: fr.specVars}
	var reqs []string
	for _, c := range con.Requires {
		g, err := env.evalBool(c.E)
		if err != nil {
			vc.oblige(st, "spec-error", "requires/"+c.Name, "false", c.Pos, err.Error())
			continue
		}
		vc.assume(g)
		reqs = append(reqs, g)
	}
	for _, c := range con.Excepts {
		g, err := env.evalBool(c.E)
		if err != nil {
			vc.oblige(st, "spec-error", "except/"+c.Name, "false", c.Pos, err.Error())
			continue
		}
		if c.Name == kf {
			vc.assume(g)
			reqs = append(reqs, g)
		} else {
			vc.assume(not(g))
			reqs = append(reqs, not(g))
			vc.assumed["carve-out "+c.Name+" (known finding): "+c.Src] = true
		}
	}
	for _, c := range con.Assumes {
		g, err := env.evalBool(c.E)
		if err != nil {
			vc.oblige(st, "spec-error", "assume/"+c.Name, "false", c.Pos, err.Error())
			continue
		}
		vc.assume(g)
		reqs = append(reqs, g)
		vc.assumed["local-assumption:"+name+"/"+c.Name+": "+c.Src] = true
	}
	// vacuity guard: the preconditions must be satisfiable
	{
		// always present: it also guards against an inconsistent background axiom
		o := vc.oblige(st, "cover", "requires-sat", "false", con.Pos, "background axioms and preconditions are satisfiable")
		o.ExpectSat = true
	}
	perReturn := con.Flags["post-per-return"]
	if len(con.ExitAsserts) > 0 && !perReturn {
		fr.perReturn = func(rst *State, rs []*Val, k int, retPos token.Pos) {
			vc.exitAsserts(fr, con, rst, withGhosts(fr, specVarsFor(fn, params, rs)), k, retPos)
		}
	}
	if perReturn {
		// postconditions are checked at every return site (simpler queries than
		// the merged exit state when a function has dozens of returns)
		fr.perReturn = func(rst *State, rs []*Val, k int, retPos token.Pos) {
			vars := withGhosts(fr, specVarsFor(fn, params, rs))
			for i, fv := range fn.FreeVars {
				vars[fv.Name()] = binds[i]
			}
			env := &Env{vc: vc, st: rst, old: fr.entry, vars: vars}
			// loop state ($idx#N) of the enclosing loops is visible to witness terms
			wenv := vc.loopEnvAt(fr, rst)
			for k, v := range vars {
				wenv.vars[k] = v
			}
			for _, c := range con.Ensures {
				ce := c.E
				if wit := con.Witness[c.Name]; wit != nil {
					usable := true
					for _, w := range wit {
						wenv.err = nil
						wenv.eval(w)
						if wenv.err != nil {
							usable = false
						}
					}
					wenv.err = nil
					if usable {
						ce = instantiateWitness(ce, wit)
						env = wenv
					} else {
						env = &Env{vc: vc, st: rst, old: fr.entry, vars: vars}
					}
				}
				g, err := env.evalBool(ce)
				if err != nil {
					vc.oblige(rst, "spec-error", fmt.Sprintf("ensures/%s@ret%d", c.Name, k), "false", c.Pos, err.Error())
					continue
				}
				o := vc.oblige(rst, "post", fmt.Sprintf("%s@ret%d", c.Name, k), g, c.Pos, c.Src)
				o.Except = c.Except
				o.Src = fmt.Sprintf("[return at %s] %s", vc.pos(retPos).String(), c.Src)
			}
			vc.exitAsserts(fr, con, rst, vars, k, retPos)
			if con.Flags["frame-per-return"] && !con.Flags["noframe"] {
				vc.checkFrame(fr, rst, con, &Env{vc: vc, st: rst, old: fr.entry, vars: vars}, fmt.Sprintf("@ret%d", k))
			}
		}
	}
	exit, results := vc.execBody(fr, st)
	// fail closed: a cut point or loop invariant that no longer attaches to the
	// code (the call or the loop is gone) would silently stop being checked
	for _, key := range sortedKeys(con.Asserts) {
		if !fr.cutHits[key] {
			vc.oblige(st, "spec-error", "assert-unattached/"+strings.ReplaceAll(key, " ", "-"), "false", con.Pos, "the assertions at cut point \""+key+"\" did not attach to any call of "+name)
		}
	}
	for _, key := range sortedKeys(con.Ghosts) {
		if !fr.cutHits[key] {
			vc.oblige(st, "spec-error", "ghost-unattached/"+strings.ReplaceAll(key, " ", "-"), "false", con.Pos, "the ghost at cut point \""+key+"\" did not attach to any call of "+name)
		}
	}
	nloops := len(fr.loops)
	for ord := range con.LoopInv {
		if ord >= nloops {
			vc.oblige(st, "spec-error", fmt.Sprintf("loop%d-missing", ord), "false", con.Pos, fmt.Sprintf("loop %d has invariants but %s has only %d loops", ord, name, nloops))
		}
	}
	if exit == nil {
		if len(con.Ensures) > 0 {
			vc.oblige(st, "cover", "returns", "false", con.Pos, "function has a reachable return")
		}
		return vc, nil
	}
	vars := specVarsFor(fn, params, results)
	for i, fv := range fn.FreeVars {
		vars[fv.Name()] = binds[i]
	}
	penv := &Env{vc: vc, st: exit, old: fr.entry, vars: vars}
	for _, c := range con.Ensures {
		if perReturn {
			break
		}
		g, err := penv.evalBool(c.E)
		if err != nil {
			vc.oblige(exit, "spec-error", "ensures/"+c.Name, "false", c.Pos, err.Error())
			continue
		}
		o := vc.oblige(exit, "post", c.Name, g, c.Pos, c.Src)
		o.Except = c.Except
	}
	if con.Lemma || strings.HasPrefix(name, "lemma_") {
		if len(results) == 1 && vc.u.sortOf(results[0].T) == "Bool" {
			vc.oblige(exit, "lemma", "holds", results[0].S, con.Pos, name+" returns true")
		}
	}
	if !con.Flags["noframe"] && !(perReturn && con.Flags["frame-per-return"]) {
		vc.checkFrame(fr, exit, con, penv, "")
	}
	return vc, nil
}

// checkFrame: everything allocated before the call and not named by a modifies
// clause is unchanged at exit.
func (vc *VC) checkFrame(fr *Frame, exit *State, con *Contract, env *Env, suffix string) {
	entry := fr.entry
	type target struct{ lo, hi string }
	heapT := map[string][]target{}
	heapAll := map[string]bool{}
	mapT := map[string][]string{}
	mapAll := map[string]bool{}
	all := false
	oldEnv := env.with(entry)
	for _, m := range con.Modifies {
		switch m.Kind {
		case "all":
			all = true
		case "heap":
			k := vc.u.heapKey(m.T)
			if m.E == nil {
				heapAll[k] = true
				continue
			}
			v := oldEnv.eval(m.E)
			if m.Spare {
				heapT[k] = append(heapT[k], target{"(+ (sptr " + v.S + ") (slen " + v.S + "))", "(+ (sptr " + v.S + ") (scap " + v.S + "))"})
			} else if m.Elems {
				heapT[k] = append(heapT[k], target{"(sptr " + v.S + ")", "(+ (sptr " + v.S + ") (slen " + v.S + "))"})
			} else {
				heapT[k] = append(heapT[k], target{v.S, "(+ " + v.S + " 1)"})
			}
		case "maps":
			k := vc.u.mapKey(types.Unalias(m.T).Underlying().(*types.Map))
			if m.E == nil {
				mapAll[k] = true
				continue
			}
			v := oldEnv.eval(m.E)
			mapT[k] = append(mapT[k], v.S)
		}
	}
	if all {
		return
	}
	for _, k := range sortedKeys(exit.heaps) {
		h1 := exit.heaps[k]
		h0, ok := entry.heaps[k]
		if !ok {
			h0 = "H0_" + k
		}
		if h1 == h0 || heapAll[k] {
			continue
		}
		outside := []string{"(< 0 a)", "(< a " + entry.alloc + ")"}
		for _, tg := range heapT[k] {
			outside = append(outside, fmt.Sprintf("(not (and (<= %s a) (< a %s)))", tg.lo, tg.hi))
		}
		g := fmt.Sprintf("(forall ((a Int)) (=> %s (= (select %s a) (select %s a))))", and(outside...), h1, h0)
		vc.oblige(exit, "frame", "heap["+k+"]"+suffix, g, con.Pos, "only the declared objects of type "+k+" are written")
	}
	for _, k := range sortedKeys(exit.mdom) {
		if mapAll[k] {
			continue
		}
		d0, ok := entry.mdom[k]
		v0 := entry.mval[k]
		if !ok {
			d0, v0 = "MD0_"+k, "MV0_"+k
		}
		if exit.mdom[k] == d0 && exit.mval[k] == v0 {
			continue
		}
		outside := []string{"(< 0 m)", "(< m " + entry.alloc + ")"}
		for _, tg := range mapT[k] {
			outside = append(outside, "(not (= m "+tg+"))")
		}
		g := fmt.Sprintf("(forall ((m Int)) (=> %s (and (= (select %s m) (select %s m)) (= (select %s m) (select %s m)))))", and(outside...), exit.mdom[k], d0, exit.mval[k], v0)
		// map values outside the domain are irrelevant: compare extensionally on the domain only
		ks := vc.u.sortOf(vc.u.mapKeys[k].Key())
		g = fmt.Sprintf("(forall ((m Int) (k %s)) (=> %s (and (= (select (select %s m) k) (select (select %s m) k)) (=> (select (select %s m) k) (= (select (select %s m) k) (select (select %s m) k))))))",
			ks, and(outside...), exit.mdom[k], d0, d0, exit.mval[k], v0)
		vc.oblige(exit, "frame", "maps["+k+"]"+suffix, g, con.Pos, "only the declared maps of type "+k+" are written")
	}
}

var _ = token.NoPos

// exitAsserts checks the contract's exit assertions at one return site. They are
// evaluated with the frame's locals in scope (a statement about the function's
// final internal state, e.g. how the result relates to an intermediate list).
func (vc *VC) exitAsserts(fr *Frame, con *Contract, rst *State, vars map[string]*Val, k int, retPos token.Pos) {
	for _, c := range con.ExitAsserts {
		env := vc.loopEnvAt(fr, rst)
		env.pre = nil
		env.lenient = true
		for n, v := range vars {
			env.vars[n] = v
		}
		g, err := env.evalBool(c.E)
		if err != nil {
			// an exit assertion that mentions a ghost variable speaks about the
			// returns reached after the ghost's cut point only
			unboundGhost := false
			for _, gds := range con.Ghosts {
				for _, gd := range gds {
					if _, bound := fr.specVars[gd.Name]; !bound && strings.Contains(err.Error(), "\""+gd.Name+"\"") {
						unboundGhost = true
					}
				}
			}
			if unboundGhost {
				continue
			}
			vc.oblige(rst, "spec-error", fmt.Sprintf("exit-assert/%s@ret%d", c.Name, k), "false", c.Pos, err.Error())
			continue
		}
		o := vc.oblige(rst, "assert", fmt.Sprintf("exit/%s@ret%d", c.Name, k), g, c.Pos, c.Src)
		o.Src = fmt.Sprintf("[return at %s] %s", vc.pos(retPos).String(), c.Src)
	}
}

// withGhosts adds the ghost variables bound so far (and nothing else) to vars.
func withGhosts(fr *Frame, vars map[string]*Val) map[string]*Val {
	for n, v := range fr.specVars {
		if _, ok := vars[n]; !ok {
			vars[n] = v
		}
	}
	return vars
}
