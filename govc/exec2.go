package main

// Loops, map ranges, calls.

import (
	"fmt"
	"go/token"
	"go/types"
	"os"
	"sort"
	"strings"

	"golang.org/x/tools/go/ssa"
)

// ---- modification sets -----------------------------------------------------------

type ModSet struct {
	cells  map[*ssa.Alloc]bool
	ranges map[*ssa.Range]bool
	heaps  map[string]bool
	maps   map[string]bool
	oldH   map[string]bool // heaps in which memory that existed before may be written
	oldM   map[string]bool
	alloc  bool
	rh     bool
	all    bool
	region func(*ssa.BasicBlock) bool // the blocks the set is computed for (nil: unknown)
}

func newModSet() *ModSet {
	return &ModSet{cells: map[*ssa.Alloc]bool{}, ranges: map[*ssa.Range]bool{}, heaps: map[string]bool{}, maps: map[string]bool{}, oldH: map[string]bool{}, oldM: map[string]bool{}}
}

func (m *ModSet) union(o *ModSet, withCells bool) {
	if withCells {
		for k := range o.cells {
			m.cells[k] = true
		}
		for k := range o.ranges {
			m.ranges[k] = true
		}
	}
	for k := range o.heaps {
		m.heaps[k] = true
	}
	for k := range o.maps {
		m.maps[k] = true
	}
	for k := range o.oldH {
		m.oldH[k] = true
	}
	for k := range o.oldM {
		m.oldM[k] = true
	}
	m.alloc = m.alloc || o.alloc
	m.rh = m.rh || o.rh
	m.all = m.all || o.all
}

func rootOfAddr(v ssa.Value) ssa.Value {
	for {
		switch x := v.(type) {
		case *ssa.FieldAddr:
			v = x.X
		default:
			return v
		}
	}
}

// reachableKeys adds the heaps and maps reachable from values of type t.
func (vc *VC) reachableKeys(t types.Type, ms *ModSet, seen map[string]bool) {
	k := typeStr(t)
	if seen[k] {
		return
	}
	seen[k] = true
	if isTime(t) || opaqueStruct(t) {
		return
	}
	switch tt := types.Unalias(t).Underlying().(type) {
	case *types.Pointer:
		ms.heaps[vc.u.heapKey(tt.Elem())], ms.oldH[vc.u.heapKey(tt.Elem())] = true, true
		vc.reachableKeys(tt.Elem(), ms, seen)
	case *types.Slice:
		ms.heaps[vc.u.heapKey(tt.Elem())], ms.oldH[vc.u.heapKey(tt.Elem())] = true, true
		vc.reachableKeys(tt.Elem(), ms, seen)
	case *types.Map:
		ms.maps[vc.u.mapKey(tt)], ms.oldM[vc.u.mapKey(tt)] = true, true
		vc.reachableKeys(tt.Key(), ms, seen)
		vc.reachableKeys(tt.Elem(), ms, seen)
	case *types.Struct:
		for i := 0; i < tt.NumFields(); i++ {
			vc.reachableKeys(tt.Field(i).Type(), ms, seen)
		}
	case *types.Interface:
		ms.all = true
	}
}

func (vc *VC) modsOfBlocks(fn *ssa.Function, in func(*ssa.BasicBlock) bool, depth int) *ModSet {
	ms := newModSet()
	ms.region = in
	for _, b := range fn.Blocks {
		if !in(b) {
			continue
		}
		for _, ins := range b.Instrs {
			switch x := ins.(type) {
			case *ssa.Store:
				root := rootOfAddr(x.Addr)
				if a, ok := root.(*ssa.Alloc); ok && !a.Heap {
					ms.cells[a] = true
				} else if _, ok := root.(*ssa.Global); ok {
					// globals are cells of the engine; treated as always unknown
				} else if a, ok := root.(*ssa.Alloc); ok && a.Heap && in(a.Block()) {
					// object allocated inside the region: fresh memory only
					ms.heaps[vc.u.heapKey(deref(root.Type()))] = true
				} else if ia, ok := root.(*ssa.IndexAddr); ok {
					k := vc.u.heapKey(deref(ia.Type()))
					ms.heaps[k], ms.oldH[k] = true, true
				} else {
					k := vc.u.heapKey(deref(root.Type()))
					ms.heaps[k], ms.oldH[k] = true, true
				}
			case *ssa.MapUpdate:
				k := vc.u.mapKey(types.Unalias(x.Map.Type()).Underlying().(*types.Map))
				ms.maps[k], ms.oldM[k] = true, true
			case *ssa.Alloc:
				if x.Heap {
					ms.alloc = true
					et := deref(x.Type())
					if at, ok := types.Unalias(et).Underlying().(*types.Array); ok {
						et = at.Elem()
					}
					ms.heaps[vc.u.heapKey(et)] = true
				} else {
					ms.cells[x] = true
				}
			case *ssa.MakeSlice:
				ms.alloc = true
				ms.heaps[vc.u.heapKey(types.Unalias(x.Type()).Underlying().(*types.Slice).Elem())] = true
			case *ssa.MakeMap:
				ms.alloc = true
				ms.maps[vc.u.mapKey(types.Unalias(x.Type()).Underlying().(*types.Map))] = true
			case *ssa.MakeInterface:
				if _, isIf := types.Unalias(x.X.Type()).Underlying().(*types.Interface); !isIf && vc.ifaceRepr(x.X.Type()) == "box" {
					ms.alloc = true
					ms.heaps[vc.u.heapKey(x.X.Type())] = true
				}
			case *ssa.Convert:
				if isByteSlice(x.Type()) && isStringT(x.X.Type()) {
					ms.alloc = true
					ms.heaps[vc.u.heapKey(byteT)] = true
				}
			case *ssa.Range:
				ms.ranges[x] = true
			case *ssa.Next:
				if r, ok := x.Iter.(*ssa.Range); ok {
					ms.ranges[r] = true
				}
			case *ssa.Call:
				vc.modsOfCall(x, ms, depth)
			case *ssa.Go, *ssa.Defer, *ssa.Send, *ssa.Select:
				ms.all = true
			}
		}
	}
	return ms
}

func (vc *VC) modsOfCall(x *ssa.Call, ms *ModSet, depth int) {
	c := x.Call
	if b, ok := c.Value.(*ssa.Builtin); ok {
		switch b.Name() {
		case "append":
			ms.alloc = true
			k := vc.u.heapKey(types.Unalias(c.Args[0].Type()).Underlying().(*types.Slice).Elem())
			ms.heaps[k], ms.oldH[k] = true, true
		case "copy":
			k := vc.u.heapKey(types.Unalias(c.Args[0].Type()).Underlying().(*types.Slice).Elem())
			ms.heaps[k], ms.oldH[k] = true, true
		case "delete":
			k := vc.u.mapKey(types.Unalias(c.Args[0].Type()).Underlying().(*types.Map))
			ms.maps[k], ms.oldM[k] = true, true
		}
		return
	}
	if c.IsInvoke() {
		if vc.topCon != nil && vc.topCon.Flags["devirt"] && vc.topCon.Flags["devirt-closed"] {
			if iface, ok := types.Unalias(c.Value.Type()).Underlying().(*types.Interface); ok {
				if cands := vc.devirtCands(iface, c.Method.Name()); len(cands) > 0 {
					for _, cd := range cands {
						vc.conMods(vc.eng.contractOf(cd.fn), ms)
					}
					return
				}
			}
		}
		ic := vc.eng.ifaceContract(c.Value.Type(), c.Method.Name())
		if ic == nil {
			ms.all = true
			return
		}
		vc.conMods(ic, ms)
		return
	}
	callee, _ := c.Value.(*ssa.Function)
	if callee == nil {
		if mc, ok := c.Value.(*ssa.MakeClosure); ok {
			callee = mc.Fn.(*ssa.Function)
		}
	}
	if callee == nil {
		ms.all = true
		return
	}
	if con := vc.eng.contractOf(callee); con != nil {
		vc.conMods(con, ms)
		return
	}
	if callee.Pkg != nil && callee.Pkg.Pkg == vc.u.pkg && callee.Blocks != nil {
		if depth < 4 {
			sub := vc.modsOfBlocks(callee, func(*ssa.BasicBlock) bool { return true }, depth+1)
			ms.union(sub, false)
			return
		}
		ms.all = true
		return
	}
	// external function
	if sm := stdlibEffects(callee); sm != nil {
		sm(vc, x, ms)
		return
	}
	// unknown external: may write whatever is reachable from its arguments
	seen := map[string]bool{}
	for _, a := range c.Args {
		vc.reachableKeys(a.Type(), ms, seen)
	}
	ms.alloc = true
}

// conMods translates the modifies clauses of a contract into a ModSet.
func (vc *VC) conMods(con *Contract, ms *ModSet) {
	ms.alloc = true
	for _, m := range con.Modifies {
		switch m.Kind {
		case "heap":
			k := vc.u.heapKey(m.T)
			ms.heaps[k], ms.oldH[k] = true, true
		case "maps":
			k := vc.u.mapKey(types.Unalias(m.T).Underlying().(*types.Map))
			ms.maps[k], ms.oldM[k] = true, true
		case "new":
			if mt, ok := types.Unalias(m.T).Underlying().(*types.Map); ok {
				ms.maps[vc.u.mapKey(mt)] = true
			} else {
				ms.heaps[vc.u.heapKey(m.T)] = true
			}
		case "rh":
			ms.rh = true
		case "all":
			ms.all = true
		}
	}
}

func (vc *VC) havoc(fr *Frame, st *State, ms *ModSet, why string) {
	if ms.all {
		// everything that has a name in this state, plus all heaps/maps known
		for k := range vc.u.heapKeys {
			ms.heaps[k], ms.oldH[k] = true, true
		}
		for k := range vc.u.mapKeys {
			ms.maps[k], ms.oldM[k] = true, true
		}
		ms.alloc, ms.rh = true, true
	}
	var as []*ssa.Alloc
	for a := range ms.cells {
		as = append(as, a)
	}
	sort.Slice(as, func(i, j int) bool {
		return as[i].Pos() < as[j].Pos() || (as[i].Pos() == as[j].Pos() && as[i].Name() < as[j].Name())
	})
	if ms.alloc {
		na := vc.fresh("alloc", "Int")
		vc.assume("(>= " + na + " " + st.alloc + ")")
		st.alloc = na
	}
	for _, a := range as {
		c := fr.cellOf[a]
		if c == nil {
			continue
		}
		if old, ok := st.cells[c]; ok && old.P != nil {
			continue // cells holding executor-level pointers are never reassigned differently
		}
		st.cells[c] = vc.havocVal(c.T, c.name)
		vc.assumeRefsBelow(st, st.cells[c].S, c.T)
	}
	for r := range ms.ranges {
		if rs := fr.rangeOf[r]; rs != nil {
			if _, ok := st.cells[rs.visCell]; ok {
				n := vc.fresh("vis", rs.visSort(vc))
				st.cells[rs.visCell] = &Val{Srt: rs.visSort(vc), S: n}
			}
		}
	}
	for _, k := range sortedKeys(ms.heaps) {
		t := vc.u.heapKeys[k]
		vc.heap(st, t)
		st.heaps[k] = vc.fresh("H_"+k, "(Array Int "+vc.u.sortOf(t)+")")
		vc.assume(vc.refsBelowAxiom(st.heaps[k], t, st.alloc))
		vc.assume(vc.elemWfAxiom(st.heaps[k], t))
	}
	for _, k := range sortedKeys(ms.maps) {
		mt := vc.u.mapKeys[k]
		vc.mapArrays(st, mt)
		ks, vs := vc.u.sortOf(mt.Key()), vc.u.sortOf(mt.Elem())
		st.mdom[k] = vc.fresh("MD_"+k, "(Array Int (Array "+ks+" Bool))")
		st.mval[k] = vc.fresh("MV_"+k, "(Array Int (Array "+ks+" "+vs+"))")
		st.mcard[k] = vc.fresh("MC_"+k, "(Array Int Int)")
		vc.assume(fmt.Sprintf("(forall ((m Int)) (! (>= (select %s m) 0) :pattern ((select %s m))))", st.mcard[k], st.mcard[k]))
		vc.assume(vc.mapRefsBelowAxiom(st.mval[k], mt, st.alloc))
	}
	if ms.rh {
		st.rh = vc.fresh("RH", "Int")
	}
}

func (rs *rangeState) visSort(vc *VC) string {
	return "(Array " + vc.u.sortOf(rs.keyT) + " Bool)"
}

// ---- loops -------------------------------------------------------------------------

func (vc *VC) loopEnv(fr *Frame, li *loopInfo, st *State) *Env {
	env := &Env{vc: vc, st: st, old: fr.entry, pre: li.entry, vars: map[string]*Val{}, fr: fr, vis: map[string]*Val{}}
	for k, v := range fr.specVars {
		env.vars[k] = v
	}
	// $idx: the hidden range index stored in the loop header
	for _, ins := range li.head.Instrs {
		if s, ok := ins.(*ssa.Store); ok {
			if a, ok := s.Addr.(*ssa.Alloc); ok && a.Comment == "rangeindex" {
				if c := fr.cellOf[a]; c != nil {
					if v, ok := st.cells[c]; ok {
						env.idx = v
					}
				}
			}
		}
		// map range: the iterator used by the Next in the header
		if nx, ok := ins.(*ssa.Next); ok {
			if r, ok := nx.Iter.(*ssa.Range); ok {
				if rs := fr.rangeOf[r]; rs != nil {
					if v, ok := st.cells[rs.visCell]; ok {
						env.vis[""] = v
					}
				}
			}
		}
	}
	// $range: the slice a `for ... := range x` loop iterates over (x may be an
	// unnamed temporary such as a call result)
	if lim := rangeLimit(fr, li); lim != nil {
		if c, ok := lim.(*ssa.Call); ok {
			if b, ok := c.Call.Value.(*ssa.Builtin); ok && b.Name() == "len" && len(c.Call.Args) == 1 {
				if v, ok := fr.regs[c.Call.Args[0]]; ok {
					env.vars["$range"] = v
				}
			}
		}
	}
	// range indices of every enclosing range loop, by loop ordinal: $idx#N
	env.idxBy = map[int]*Val{}
	for _, l := range fr.loops {
		for _, ins := range l.head.Instrs {
			if s, ok := ins.(*ssa.Store); ok {
				if a, ok := s.Addr.(*ssa.Alloc); ok && a.Comment == "rangeindex" {
					if c := fr.cellOf[a]; c != nil {
						if v, ok := st.cells[c]; ok {
							env.idxBy[l.ordinal] = v
						}
					}
				}
			}
		}
	}
	// all live map ranges by ordinal
	for r, rs := range fr.rangeOf {
		if v, ok := st.cells[rs.visCell]; ok {
			env.vis[fmt.Sprint(fr.rangeOrd[r])] = v
		}
	}
	return env
}

func (vc *VC) loopInvs(fr *Frame, li *loopInfo) []*Clause {
	if fr.con == nil {
		return nil
	}
	return fr.con.LoopInv[li.ordinal]
}

func (vc *VC) enterLoop(fr *Frame, li *loopInfo, cur *State) *State {
	li.entry = cur.clone()
	invs := vc.loopInvs(fr, li)
	env := vc.loopEnv(fr, li, cur)
	for _, c := range invs {
		g, err := env.evalBool(c.E)
		if err != nil {
			vc.oblige(cur, "spec-error", fmt.Sprintf("%sloop%d/%s", fr.prefix, li.ordinal, c.Name), "false", c.Pos, err.Error())
			continue
		}
		o := vc.oblige(cur, "inv.init", fmt.Sprintf("%sloop%d/%s", fr.prefix, li.ordinal, c.Name), g, c.Pos, c.Src)
		o.Except = c.Except
	}
	st := cur.clone()
	ms := vc.modsOfBlocks(fr.fn, func(b *ssa.BasicBlock) bool { return li.blocks[b] }, 0)
	li.mods = ms
	vc.havoc(fr, st, ms, "loop")
	// automatic facts about the hidden range index
	env2 := vc.loopEnv(fr, li, st)
	if env2.idx != nil {
		vc.assume(implies(st.reach, "(>= "+env2.idx.S+" (- 1))"))
		// the builder's hidden range index: idx+1 < limit was true when the back
		// edge was taken, and idx == -1 at entry, so idx < limit (limit >= 0)
		if lim := rangeLimit(fr, li); lim != nil {
			if lv, ok := fr.regs[lim]; ok && lv.S != "" {
				vc.assume(implies(st.reach, "(< "+env2.idx.S+" (ite (< "+lv.S+" 0) 0 "+lv.S+"))"))
			}
		}
	}
	// heaps/maps in which the loop only creates new objects: everything that
	// existed when the loop was entered keeps its value
	for _, k := range sortedKeys(ms.heaps) {
		if ms.oldH[k] || ms.all {
			continue
		}
		h0, ok := cur.heaps[k]
		if !ok {
			h0 = "H0_" + k
		}
		vc.assume(fmt.Sprintf("(forall ((a Int)) (! (=> (< a %s) (= (select %s a) (select %s a))) :pattern ((select %s a))))", cur.alloc, st.heaps[k], h0, st.heaps[k]))
		vc.bytesFrame(k, h0, st.heaps[k], cur.alloc)
	}
	for _, k := range sortedKeys(ms.maps) {
		if ms.oldM[k] || ms.all {
			continue
		}
		d0, v0, c0 := cur.mdom[k], cur.mval[k], cur.mcard[k]
		if d0 == "" {
			d0, v0, c0 = "MD0_"+k, "MV0_"+k, "MC0_"+k
		}
		for _, pr := range [][2]string{{st.mdom[k], d0}, {st.mval[k], v0}, {st.mcard[k], c0}} {
			vc.assume(fmt.Sprintf("(forall ((m Int)) (! (=> (< m %s) (= (select %s m) (select %s m))) :pattern ((select %s m))))", cur.alloc, pr[0], pr[1], pr[0]))
		}
	}
	// a map range over a map type the loop never writes: every visited key is a key
	for r, rs := range fr.rangeOf {
		if !ms.ranges[r] || rs.m == nil {
			continue
		}
		mt, ok := types.Unalias(rs.m.T).Underlying().(*types.Map)
		if !ok || ms.oldM[vc.u.mapKey(mt)] || ms.all {
			continue
		}
		if v, ok := st.cells[rs.visCell]; ok {
			ks := vc.u.sortOf(mt.Key())
			vc.assume(implies(st.reach, fmt.Sprintf("(forall ((kk %s)) (! (=> (select %s kk) (select %s kk)) :pattern ((select %s kk))))", ks, v.S, rs.dom0, v.S)))
		}
	}
	// automatic frame facts: memory below the entry allocation counter that the
	// loop does not store to keeps its value — only for whole heaps (cheap case
	// handled by not havocking them at all); everything else must be stated.
	for _, c := range invs {
		g, err := env2.evalBool(c.E)
		if err != nil {
			continue
		}
		vc.assume(implies(st.reach, g))
	}
	// vacuity guard: the invariants must leave the loop body reachable
	if len(invs) > 0 && fr.depth == 0 {
		o := vc.oblige(st, "cover", fmt.Sprintf("loop%d-reachable", li.ordinal), "false", token.Position{}, "the loop invariants are satisfiable at the loop head")
		o.ExpectSat = true
	}
	return st
}

func (vc *VC) backEdge(fr *Frame, li *loopInfo, st *State) {
	if li == nil {
		vc.unsupported(st, "irreducible-back-edge", token.Position{})
		return
	}
	env := vc.loopEnv(fr, li, st)
	// the index fact is re-established trivially; user invariants:
	for _, c := range vc.loopInvs(fr, li) {
		g, err := env.evalBool(c.E)
		if err != nil {
			vc.oblige(st, "spec-error", fmt.Sprintf("%sloop%d/%s", fr.prefix, li.ordinal, c.Name), "false", c.Pos, err.Error())
			continue
		}
		o := vc.oblige(st, "inv.pres", fmt.Sprintf("%sloop%d/%s", fr.prefix, li.ordinal, c.Name), g, c.Pos, c.Src)
		o.Except = c.Except
	}
}

// ---- map range ------------------------------------------------------------------------

func (vc *VC) execRange(fr *Frame, st *State, x *ssa.Range) {
	m := vc.val(fr, st, x.X)
	mt, ok := types.Unalias(m.T).Underlying().(*types.Map)
	if !ok {
		vc.unsupported(st, "range-over-"+typeStr(m.T), vc.pos(x.Pos()))
		fr.regs[x] = &Val{T: x.Type()}
		return
	}
	rs := fr.rangeOf[x]
	if rs == nil {
		rs = &rangeState{instr: x, kind: "map", keyT: mt.Key(), valT: mt.Elem()}
		rs.visCell = vc.newCell("visited", nil)
		fr.rangeOf[x] = rs
	}
	rs.m = m
	_, dom, _, _ := vc.mapArrays(st, mt)
	ks := vc.u.sortOf(mt.Key())
	rs.dom0 = vc.define("dom0", "(Array "+ks+" Bool)", fmt.Sprintf("(ite (= %s 0) ((as const (Array %s Bool)) false) (select %s %s))", m.S, ks, dom, m.S))
	st.cells[rs.visCell] = &Val{Srt: rs.visSort(vc), S: fmt.Sprintf("((as const (Array %s Bool)) false)", ks)}
	fr.regs[x] = &Val{T: x.Type(), Rng: rs}
}

func (vc *VC) execNext(fr *Frame, st *State, x *ssa.Next) {
	it := vc.val(fr, st, x.Iter)
	rs := it.Rng
	if rs == nil || x.IsString {
		vc.unsupported(st, "next", vc.pos(x.Pos()))
		fr.regs[x] = vc.havocVal(x.Type(), "nx")
		return
	}
	mt := types.Unalias(rs.m.T).Underlying().(*types.Map)
	_, dom, val, _ := vc.mapArrays(st, mt)
	ks := vc.u.sortOf(mt.Key())
	vis, okc := st.cells[rs.visCell]
	if !okc {
		vc.unsupported(st, "range-state-lost", vc.pos(x.Pos()))
		fr.regs[x] = vc.havocVal(x.Type(), "nx")
		return
	}
	ok := vc.fresh("more", "Bool")
	k := vc.fresh("key", ks)
	m := rs.m.S
	vc.assume(implies(st.reach, implies(ok, fmt.Sprintf("(and (not (= %s 0)) (select (select %s %s) %s) (not (select %s %s)))", m, dom, m, k, vis.S, k))))
	vc.assume(implies(st.reach, implies(not(ok), fmt.Sprintf("(forall ((kk %s)) (! (=> (and (not (= %s 0)) (select (select %s %s) kk) (select %s kk)) (select %s kk)) :pattern ((select %s kk)) :pattern ((select (select %s %s) kk))))", ks, m, dom, m, rs.dom0, vis.S, vis.S, dom, m))))
	nvis := vc.fresh("vis", rs.visSort(vc))
	vc.assume(eq(nvis, ite(ok, "(store "+vis.S+" "+k+" true)", vis.S)))
	st.cells[rs.visCell] = &Val{Srt: rs.visSort(vc), S: nvis}
	vterm := vc.define("mv", vc.u.sortOf(mt.Elem()), fmt.Sprintf("(select (select %s %s) %s)", val, m, k))
	for _, f := range vc.wfFacts(vterm, mt.Elem(), 0) {
		vc.assume(f)
	}
	vc.assumeRefsBelow(st, vterm, mt.Elem())
	for _, f := range vc.wfFacts(k, mt.Key(), 0) {
		vc.assume(f)
	}
	fr.regs[x] = &Val{T: x.Type(), Tup: []*Val{{T: tBool, S: ok}, {T: mt.Key(), S: k}, {T: mt.Elem(), S: vterm}}}
}

// ---- calls ---------------------------------------------------------------------------------

func (vc *VC) execCall(fr *Frame, st *State, x *ssa.Call) {
	c := x.Call
	var args []*Val
	for _, a := range c.Args {
		args = append(args, vc.val(fr, st, a))
	}
	if b, ok := c.Value.(*ssa.Builtin); ok {
		if fr.depth == 0 && fr.con != nil && len(fr.con.Asserts) > 0 {
			k := callOrdinal(fr.fn, x, b.Name())
			keys := []string{fmt.Sprintf("%s#%d", b.Name(), k)}
			if os.Getenv("GOVC_DEBUG_CUT") != "" {
				fmt.Fprintf(os.Stderr, "CUT %s#%d at %s\n", b.Name(), k, vc.pos(x.Pos()))
			}
			vc.cutPoints(fr, st, keys, "")
			fr.regs[x] = vc.builtin(fr, st, x, b.Name(), args)
			vc.cutPoints(fr, st, keys, "after ")
			return
		}
		fr.regs[x] = vc.builtin(fr, st, x, b.Name(), args)
		return
	}
	if c.IsInvoke() {
		recv := vc.val(fr, st, c.Value)
		fr.regs[x] = vc.invoke(fr, st, x, recv, args)
		return
	}
	var callee *ssa.Function
	var binds []*Val
	switch f := c.Value.(type) {
	case *ssa.Function:
		callee = f
	case *ssa.MakeClosure:
		callee = f.Fn.(*ssa.Function)
		binds = vc.val(fr, st, f).Bind
	default:
		fv := vc.val(fr, st, c.Value)
		if fv.Fn != nil {
			callee = fv.Fn
			binds = fv.Bind
		}
	}
	if callee == nil {
		// a callback stored in a struct field may have an (assumed) contract:
		// //@ interface <Struct>.<Field>
		if u, ok := c.Value.(*ssa.UnOp); ok && u.Op == token.MUL {
			if fa, ok := u.X.(*ssa.FieldAddr); ok {
				if pt := deref(fa.X.Type()); pt != nil {
					if n, ok := types.Unalias(pt).(*types.Named); ok {
						if stt, ok := n.Underlying().(*types.Struct); ok {
							key := n.Obj().Name() + "." + stt.Field(fa.Field).Name()
							if con := vc.eng.ifaceCons[key]; con != nil {
								fv := vc.val(fr, st, c.Value)
								vc.safety(fr, st, "nilptr", "(not (= "+fv.S+" 0))", x.Pos(), "call of nil func "+key)
								vc.assumed["callback-contract:"+key] = true
								vars := map[string]*Val{}
								for i, a := range args {
									vars[fmt.Sprintf("arg%d", i)] = a
								}
								sig := c.Value.Type().Underlying().(*types.Signature)
								results := vc.applyContract(fr, st, x.Pos(), key, con, vars, sig.Results())
								fr.regs[x] = tupleOrSingle(x.Type(), results)
								return
							}
						}
					}
				}
			}
		}
		// call through a function value: nothing is known about the callee
		vc.uncontr["func-value:"+c.Value.Name()+"@"+vc.fnName] = true
		ms := newModSet()
		ms.all = true
		vc.havoc(fr, st, ms, "funcvalue")
		fr.regs[x] = vc.havocVal(x.Type(), "fv")
		return
	}
	fr.regs[x] = vc.callFunc(fr, st, x, callee, args, binds)
}

func tupleOrSingle(t types.Type, vals []*Val) *Val {
	if tup, ok := t.(*types.Tuple); ok {
		if tup.Len() == 0 {
			return &Val{T: t}
		}
		return &Val{T: t, Tup: vals}
	}
	if len(vals) == 1 {
		return vals[0]
	}
	return &Val{T: t}
}

func (vc *VC) callFunc(fr *Frame, st *State, x *ssa.Call, callee *ssa.Function, args []*Val, binds []*Val) *Val {
	// cut points placed around this call by the contract of the function under proof
	if fr.depth == 0 && fr.con != nil && len(fr.con.Asserts) > 0 {
		nm := fnDisplayName(callee)
		k := callOrdinal(fr.fn, x, nm)
		keys := []string{fmt.Sprintf("%s#%d", nm, k), fmt.Sprintf("%s#%d", nm[strings.LastIndex(nm, ".")+1:], k)}
		fr.cutArgs = args
		vc.cutPoints(fr, st, keys, "")
		r := vc.callFunc2(fr, st, x, callee, args, binds)
		fr.cutResult = r
		vc.cutPoints(fr, st, keys, "after ")
		fr.cutArgs, fr.cutResult = nil, nil
		return r
	}
	return vc.callFunc2(fr, st, x, callee, args, binds)
}

// cutPoints checks, then assumes, the contract's assertions attached to a call site.
func (vc *VC) cutPoints(fr *Frame, st *State, keys []string, prefix string) {
	if fr.cutHits == nil {
		fr.cutHits = map[string]bool{}
		fr.cutShift = map[string]int{}
	}
	// the clauses written for this site, plus clauses written for an earlier
	// ordinal that could not be evaluated there (a call of the same callee was
	// inserted before them: their locals were not in scope) and moved on
	var origs []string
	for _, key := range keys {
		h := strings.LastIndex(key, "#")
		if h < 0 {
			continue
		}
		base := key[:h]
		k := 0
		fmt.Sscanf(key[h+1:], "%d", &k)
		for jj := 0; jj < k; jj++ {
			o := fmt.Sprintf("%s%s#%d", prefix, base, jj)
			if fr.cutShift[o] == k && !fr.cutHits[o] {
				origs = append(origs, o)
			}
		}
		origs = append(origs, prefix+key)
	}
	mkEnv := func(vars map[string]*Val) *Env {
		env := vc.loopEnvAt(fr, st)
		for n, v := range vars {
			env.vars[n] = v
		}
		// $arg<i>: the actual arguments of the call the cut point is attached to
		for i, a := range fr.cutArgs {
			env.vars[fmt.Sprintf("$arg%d", i)] = a
		}
		vc.bindCutResult(fr, env)
		return env
	}
	for _, orig := range origs {
		if len(fr.con.Ghosts[orig]) == 0 && len(fr.con.Asserts[orig]) == 0 {
			continue
		}
		h := strings.LastIndex(orig, "#")
		k := 0
		fmt.Sscanf(keys[0][strings.LastIndex(keys[0], "#")+1:], "%d", &k)
		_ = h
		// can every clause be evaluated here?
		trial := map[string]*Val{}
		for n, v := range fr.specVars {
			trial[n] = v
		}
		okHere := true
		for _, gd := range fr.con.Ghosts[orig] {
			env := mkEnv(trial)
			v := env.eval(gd.E)
			if env.err != nil || v == nil {
				okHere = false
				break
			}
			trial[gd.Name] = v
		}
		for _, c := range fr.con.Asserts[orig] {
			if !okHere {
				break
			}
			env := mkEnv(trial)
			if _, err := env.evalBool(c.E); err != nil {
				okHere = false
			}
		}
		if !okHere {
			if fr.cutTries[orig] < 3 {
				if fr.cutTries == nil {
					fr.cutTries = map[string]int{}
				}
				fr.cutTries[orig]++
				fr.cutShift[orig] = k + 1
				continue
			}
			// give up moving: report where it stands
		}
		fr.cutHits[orig] = true
		for _, gd := range fr.con.Ghosts[orig] {
			env := mkEnv(fr.specVars)
			v := env.eval(gd.E)
			if env.err != nil || v == nil {
				vc.oblige(st, "spec-error", "ghost/"+gd.Name, "false", gd.Pos, fmt.Sprint(env.err))
				continue
			}
			// ghost variables are ordinary specification variables from here on
			fr.specVars[gd.Name] = v
		}
		for _, c := range fr.con.Asserts[orig] {
			env := mkEnv(fr.specVars)
			g, err := env.evalBool(c.E)
			if err != nil {
				vc.oblige(st, "spec-error", "assert/"+c.Name, "false", c.Pos, err.Error())
				continue
			}
			vc.oblige(st, "assert", c.Name, g, c.Pos, c.Src)
			if !isFrameClause(c.Name) {
				vc.cutFacts[len(vc.facts)] = true
			}
			vc.assume(implies(st.reach, g))
		}
	}
}

func (vc *VC) callFunc2(fr *Frame, st *State, x *ssa.Call, callee *ssa.Function, args []*Val, binds []*Val) *Val {
	rt := x.Type()
	if con := vc.eng.contractOf(callee); con != nil && !(fr.depth == 0 && fr.con != nil && fr.con.Inline[fnDisplayName(callee)]) {
		return vc.callByContract(fr, st, x, callee, con, args)
	}
	inPkg := callee.Pkg != nil && callee.Pkg.Pkg == vc.u.pkg
	if callee.Pkg == nil && callee.Parent() != nil { // closure
		inPkg = callee.Parent().Pkg != nil && callee.Parent().Pkg.Pkg == vc.u.pkg
	}
	if inPkg && callee.Blocks != nil {
		if fr.depth < 4 && !vc.eng.recursive(callee) {
			vc.inlined[fnDisplayName(callee)] = true
			sub := &Frame{fn: callee, params: args, binds: binds, depth: fr.depth + 1, entry: st.clone(),
				prefix: fr.prefix + "inl:" + fnDisplayName(callee) + ":", rangeOf: map[*ssa.Range]*rangeState{}, rangeOrd: map[*ssa.Range]int{}}
			sub.prepare()
			// callee panics are the caller's problem
			exit, results := vc.execBody(sub, st.clone())
			if exit == nil {
				// callee never returns
				st.reach = "false"
				return vc.havocVal(rt, "nr")
			}
			*st = *exit
			return tupleOrSingle(rt, results)
		}
		vc.uncontr[fnDisplayName(callee)] = true
		ms := vc.modsOfBlocks(callee, func(*ssa.BasicBlock) bool { return true }, 0)
		ms.cells = map[*ssa.Alloc]bool{}
		vc.havoc(fr, st, ms, "uncontracted")
		return vc.havocVal(rt, "uc")
	}
	// external
	if h := stdlibHandler(callee); h != nil {
		vc.assumed[fnDisplayName(callee)] = true
		return h(vc, fr, st, x, args)
	}
	// an external function with a known effect summary but no value contract:
	// its effects are applied, its result is arbitrary
	if sm := stdlibEffects(callee); sm != nil {
		vc.assumed[fnDisplayName(callee)+" (effect summary only; arbitrary result)"] = true
		ms := newModSet()
		sm(vc, x, ms)
		vc.havoc(fr, st, ms, "ext-effects")
		return vc.havocVal(rt, "ext")
	}
	vc.uncontr["ext:"+fnDisplayName(callee)] = true
	ms := newModSet()
	seen := map[string]bool{}
	for _, a := range x.Call.Args {
		vc.reachableKeys(a.Type(), ms, seen)
	}
	ms.alloc = true
	vc.havoc(fr, st, ms, "external")
	return vc.havocVal(rt, "ext")
}

func fnDisplayName(f *ssa.Function) string {
	if f.Signature.Recv() != nil {
		rt := f.Signature.Recv().Type()
		if p := deref(rt); p != nil {
			rt = p
		}
		if n, ok := types.Unalias(rt).(*types.Named); ok {
			pk := ""
			if n.Obj().Pkg() != nil && n.Obj().Pkg().Path() != "github.com/mfcochauxlaberge/jsonapi" {
				pk = n.Obj().Pkg().Name() + "."
			}
			return pk + n.Obj().Name() + "." + f.Name()
		}
	}
	if f.Pkg != nil && f.Pkg.Pkg.Path() != "github.com/mfcochauxlaberge/jsonapi" {
		return f.Pkg.Pkg.Name() + "." + f.Name()
	}
	if f.Parent() != nil {
		return fnDisplayName(f.Parent()) + "$" + strings.TrimPrefix(f.Name(), f.Parent().Name()+"$")
	}
	return f.Name()
}

// specVarsFor binds parameter and result names for a contract evaluation.
func specVarsFor(fn *ssa.Function, args []*Val, results []*Val) map[string]*Val {
	vars := map[string]*Val{}
	var names []string
	if r := fn.Signature.Recv(); r != nil {
		names = append(names, r.Name())
	}
	for i := 0; i < fn.Signature.Params().Len(); i++ {
		names = append(names, fn.Signature.Params().At(i).Name())
	}
	for i, n := range names {
		if i < len(args) && n != "" && n != "_" {
			vars[n] = args[i]
		}
	}
	// a renamed parameter keeps answering to the name the contract uses
	for i, n := range aliasParams(fn) {
		if i < len(args) {
			vars[n] = args[i]
		}
	}
	res := fn.Signature.Results()
	for i := 0; i < res.Len() && i < len(results); i++ {
		if n := res.At(i).Name(); n != "" && n != "_" {
			vars[n] = results[i]
		}
		vars[fmt.Sprintf("result%d", i)] = results[i]
	}
	if len(results) == 1 {
		vars["result"] = results[0]
	}
	return vars
}

func (vc *VC) callByContract(fr *Frame, st *State, x *ssa.Call, callee *ssa.Function, con *Contract, args []*Val) *Val {
	name := fnDisplayName(callee)
	vc.assumed["contract:"+name] = true
	n := fr.idxN["call:"+name]
	fr.idxN["call:"+name] = n + 1
	old := st.clone()
	env := &Env{vc: vc, st: st, old: old, vars: specVarsFor(callee, args, nil)}
	for _, c := range con.Requires {
		g, err := env.evalBool(c.E)
		if err != nil {
			vc.oblige(st, "spec-error", fmt.Sprintf("%spre@%s#%d/%s", fr.prefix, name, n, c.Name), "false", vc.pos(x.Pos()), err.Error())
			continue
		}
		vc.oblige(st, "pre", fmt.Sprintf("%s%s#%d/%s", fr.prefix, name, n, c.Name), g, vc.pos(x.Pos()), c.Src)
		vc.assume(implies(st.reach, g))
	}
	// effects
	vc.applyModifies(fr, st, old, con, env)
	// results
	var results []*Val
	rs := callee.Signature.Results()
	if con.Flags["pure"] {
		r := vc.pureApp(st, &pureFunc{fn: callee, con: con}, args)
		if len(r.Tup) > 0 {
			results = r.Tup
		} else {
			results = []*Val{r}
		}
	} else {
		for i := 0; i < rs.Len(); i++ {
			v := vc.havocVal(rs.At(i).Type(), "r_"+callee.Name())
			vc.assumeRefsBelow(st, v.S, rs.At(i).Type())
			results = append(results, v)
		}
		env2 := &Env{vc: vc, st: st, old: old, vars: specVarsFor(callee, args, results)}
		var useOnly map[string]bool
		if fr.con != nil && fr.depth == 0 {
			useOnly = fr.con.Use[name]
		}
		for _, c := range con.Ensures {
			if useOnly != nil {
				base := c.Name
				if i := strings.LastIndex(base, "."); i > 0 {
					if _, err := fmt.Sscanf(base[i+1:], "%d", new(int)); err == nil {
						base = base[:i]
					}
				}
				if !useOnly[base] {
					continue
				}
			}
			g, err := env2.evalBool(c.E)
			if err != nil {
				vc.oblige(st, "spec-error", fmt.Sprintf("%spost@%s#%d/%s", fr.prefix, name, n, c.Name), "false", vc.pos(x.Pos()), err.Error())
				continue
			}
			vc.assume(implies(st.reach, g))
		}
	}
	return tupleOrSingle(x.Type(), results)
}

// applyModifies havocs what a contract says the callee may change, keeping the
// rest of each heap (frame axioms) and everything below the allocation counter
// that is not named.
func (vc *VC) applyModifies(fr *Frame, st, old *State, con *Contract, env *Env) {
	na := vc.fresh("alloc", "Int")
	vc.assume("(>= " + na + " " + st.alloc + ")")
	oldAlloc := st.alloc
	st.alloc = na
	type target struct{ lo, hi string } // address range [lo,hi)
	heapT := map[string][]target{}
	heapAll := map[string]bool{}
	mapT := map[string][]string{}
	mapAll := map[string]bool{}
	for _, m := range con.Modifies {
		switch m.Kind {
		case "all":
			ms := newModSet()
			ms.all = true
			vc.havoc(fr, st, ms, "call")
			return
		case "rh":
			st.rh = vc.fresh("RH", "Int")
		case "heap":
			k := vc.u.heapKey(m.T)
			if m.E == nil {
				heapAll[k] = true
				continue
			}
			e2 := env.with(old)
			v := e2.eval(m.E)
			if e2.err != nil {
				vc.oblige(st, "spec-error", "modifies:"+m.Src, "false", token.Position{}, e2.err.Error())
				heapAll[k] = true
				continue
			}
			if m.Spare {
				heapT[k] = append(heapT[k], target{"(+ (sptr " + v.S + ") (slen " + v.S + "))", "(+ (sptr " + v.S + ") (scap " + v.S + "))"})
			} else if m.Elems {
				heapT[k] = append(heapT[k], target{"(sptr " + v.S + ")", "(+ (sptr " + v.S + ") (slen " + v.S + "))"})
			} else {
				heapT[k] = append(heapT[k], target{v.S, "(+ " + v.S + " 1)"})
			}
		case "maps":
			k := vc.u.mapKey(types.Unalias(m.T).Underlying().(*types.Map))
			if m.E == nil {
				mapAll[k] = true
				continue
			}
			e2 := env.with(old)
			v := e2.eval(m.E)
			if e2.err != nil {
				vc.oblige(st, "spec-error", "modifies:"+m.Src, "false", token.Position{}, e2.err.Error())
				mapAll[k] = true
				continue
			}
			mapT[k] = append(mapT[k], v.S)
		case "new":
			switch tt := types.Unalias(m.T).Underlying().(type) {
			case *types.Map:
				k := vc.u.mapKey(tt)
				if _, ok := mapT[k]; !ok {
					mapT[k] = []string{}
				}
			default:
				k := vc.u.heapKey(m.T)
				if _, ok := heapT[k]; !ok {
					heapT[k] = []target{}
				}
			}
		}
	}
	for k := range heapAll {
		t := vc.u.heapKeys[k]
		vc.heap(st, t)
		st.heaps[k] = vc.fresh("H_"+k, "(Array Int "+vc.u.sortOf(t)+")")
		vc.assume(vc.refsBelowAxiom(st.heaps[k], t, st.alloc))
		vc.assume(vc.elemWfAxiom(st.heaps[k], t))
		delete(heapT, k)
	}
	for _, k := range sortedKeys(heapT) {
		t := vc.u.heapKeys[k]
		_, h := vc.heap(st, t)
		nh := vc.fresh("H_"+k, "(Array Int "+vc.u.sortOf(t)+")")
		var outside []string
		outside = append(outside, "(< a "+oldAlloc+")")
		for _, tg := range heapT[k] {
			outside = append(outside, fmt.Sprintf("(not (and (<= %s a) (< a %s)))", tg.lo, tg.hi))
		}
		if len(heapT[k]) == 0 {
			// allocation only: also trigger on reads of the old heap, so that facts
			// about existing objects carry over to the new heap term
			vc.assume(fmt.Sprintf("(forall ((a Int)) (! (=> %s (= (select %s a) (select %s a))) :pattern ((select %s a)) :pattern ((select %s a))))", and(outside...), nh, h, nh, h))
			vc.bytesFrame(k, h, nh, oldAlloc)
		} else {
			vc.assume(fmt.Sprintf("(forall ((a Int)) (! (=> %s (= (select %s a) (select %s a))) :pattern ((select %s a))))", and(outside...), nh, h, nh))
		}
		vc.assume(vc.refsBelowAxiom(nh, t, st.alloc))
		vc.assume(vc.elemWfAxiom(nh, t))
		st.heaps[k] = nh
	}
	for k := range mapAll {
		ms := newModSet()
		ms.maps[k] = true
		vc.havoc(fr, st, ms, "call")
		delete(mapT, k)
	}
	for _, k := range sortedKeys(mapT) {
		mt := vc.u.mapKeys[k]
		_, dom, val, card := vc.mapArrays(st, mt)
		ks, vs := vc.u.sortOf(mt.Key()), vc.u.sortOf(mt.Elem())
		nd := vc.fresh("MD_"+k, "(Array Int (Array "+ks+" Bool))")
		nv := vc.fresh("MV_"+k, "(Array Int (Array "+ks+" "+vs+"))")
		nc := vc.fresh("MC_"+k, "(Array Int Int)")
		var outside []string
		outside = append(outside, "(< m "+oldAlloc+")")
		for _, tg := range mapT[k] {
			outside = append(outside, "(not (= m "+tg+"))")
		}
		o := and(outside...)
		vc.assume(fmt.Sprintf("(forall ((m Int)) (! (=> %s (= (select %s m) (select %s m))) :pattern ((select %s m))))", o, nd, dom, nd))
		vc.assume(fmt.Sprintf("(forall ((m Int)) (! (=> %s (= (select %s m) (select %s m))) :pattern ((select %s m))))", o, nv, val, nv))
		vc.assume(fmt.Sprintf("(forall ((m Int)) (! (=> %s (= (select %s m) (select %s m))) :pattern ((select %s m))))", o, nc, card, nc))
		vc.assume(fmt.Sprintf("(forall ((m Int)) (! (>= (select %s m) 0) :pattern ((select %s m))))", nc, nc))
		vc.assume(vc.mapRefsBelowAxiom(nv, mt, st.alloc))
		st.mdom[k], st.mval[k], st.mcard[k] = nd, nv, nc
	}
}

// ---- pure functions -------------------------------------------------------------------------

type pureFunc struct {
	fn  *ssa.Function
	con *Contract
}

// pureApp applies a pure function as an uninterpreted symbol and assumes its
// postconditions for this application.
func (vc *VC) pureApp(st *State, pf *pureFunc, args []*Val) *Val {
	name := "pf_" + mangle(fnDisplayName(pf.fn))
	var sorts, terms []string
	var vals []*Val
	for i, p := range pf.fn.Params {
		a := args[i]
		// pointer receivers: pass the pointee value
		if el := deref(p.Type()); el != nil {
			if a.P != nil {
				a = vc.load(nil, st, a.P, token.NoPos)
			} else if deref(a.T) != nil {
				_, h := vc.heap(st, el)
				a = &Val{T: el, S: "(select " + h + " " + a.S + ")"}
			}
			sorts = append(sorts, vc.u.sortOf(el))
		} else {
			sorts = append(sorts, vc.u.sortOf(p.Type()))
		}
		terms = append(terms, a.S)
		vals = append(vals, a)
	}
	rs := pf.fn.Signature.Results()
	if rs.Len() != 1 {
		// tuple results: one symbol per component
		out := &Val{T: rs}
		for i := 0; i < rs.Len(); i++ {
			nm := fmt.Sprintf("%s_%d", name, i)
			vc.u.declareUninterp(nm, sorts, vc.u.sortOf(rs.At(i).Type()))
			out.Tup = append(out.Tup, &Val{T: rs.At(i).Type(), S: "(" + nm + " " + strings.Join(terms, " ") + ")"})
		}
		vc.assumePureEnsures(st, pf, args, out.Tup)
		return out
	}
	vc.u.declareUninterp(name, sorts, vc.u.sortOf(rs.At(0).Type()))
	r := &Val{T: rs.At(0).Type(), S: "(" + name + " " + strings.Join(terms, " ") + ")"}
	vc.assumePureEnsures(st, pf, args, []*Val{r})
	return r
}

func (vc *VC) assumePureEnsures(st *State, pf *pureFunc, args []*Val, results []*Val) {
	key := "pure:" + fnDisplayName(pf.fn) + ":"
	for _, r := range results {
		key += r.S
	}
	if vc.pureSeen[key] {
		return
	}
	vc.pureSeen[key] = true
	if vc.fnName == fnDisplayName(pf.fn) && vc.verifyingBody {
		return // do not assume a function's contract while proving it
	}
	env := &Env{vc: vc, st: st, old: st, vars: specVarsFor(pf.fn, args, results)}
	for _, c := range pf.con.Ensures {
		// quantified bound variables may occur in args: instantiate only closed terms
		g, err := env.evalBool(c.E)
		if err != nil {
			continue
		}
		if mentionsBound(strings.Join(resultTerms(results), " ")) || mentionsBound(g) {
			continue
		}
		vc.assume(g)
	}
}

func resultTerms(rs []*Val) []string {
	var out []string
	for _, r := range rs {
		out = append(out, r.S)
	}
	return out
}

// rangeLimit recognises the go/ssa lowering of `for i := range x` and returns
// the loop-invariant limit register: header = {t=*idx; u=t+1; *idx=u; c=u<lim; if c}.
// The hidden index cell must not be stored anywhere else inside the loop.
func rangeLimit(fr *Frame, li *loopInfo) ssa.Value {
	var idxAlloc *ssa.Alloc
	var lim ssa.Value
	ins := li.head.Instrs
	if len(ins) != 5 {
		return nil
	}
	ld, ok0 := ins[0].(*ssa.UnOp)
	add, ok1 := ins[1].(*ssa.BinOp)
	stx, ok2 := ins[2].(*ssa.Store)
	cmp, ok3 := ins[3].(*ssa.BinOp)
	_, ok4 := ins[4].(*ssa.If)
	if !(ok0 && ok1 && ok2 && ok3 && ok4) {
		return nil
	}
	a, ok := ld.X.(*ssa.Alloc)
	if !ok || a.Comment != "rangeindex" || ld.Op != token.MUL {
		return nil
	}
	idxAlloc = a
	one, isC := add.Y.(*ssa.Const)
	if add.Op != token.ADD || add.X != ld || !isC || one.Int64() != 1 {
		return nil
	}
	if stx.Addr != idxAlloc || stx.Val != add {
		return nil
	}
	if cmp.Op != token.LSS || cmp.X != add {
		return nil
	}
	lim = cmp.Y
	// limit defined outside the loop
	if in, ok := lim.(ssa.Instruction); ok && li.blocks[in.Block()] {
		return nil
	}
	for b := range li.blocks {
		for _, in := range b.Instrs {
			if s, ok := in.(*ssa.Store); ok && s.Addr == idxAlloc && s != stx {
				return nil
			}
		}
	}
	return lim
}

// loopEnvAt: an environment in which the range indices of all loops live in
// state st are visible ($idx#N) together with the frame's locals.
func (vc *VC) loopEnvAt(fr *Frame, st *State) *Env {
	env := &Env{vc: vc, st: st, old: fr.entry, vars: map[string]*Val{}, fr: fr, vis: map[string]*Val{}, idxBy: map[int]*Val{}}
	// visited sets of the live map ranges: visited#N(k); visited(k) is the one with the highest ordinal
	best := -1
	for r, rs := range fr.rangeOf {
		if v, ok := st.cells[rs.visCell]; ok {
			env.vis[fmt.Sprint(fr.rangeOrd[r])] = v
			if fr.rangeOrd[r] > best {
				best = fr.rangeOrd[r]
				env.vis[""] = v
			}
		}
	}
	for _, l := range fr.loops {
		for _, ins := range l.head.Instrs {
			if s, ok := ins.(*ssa.Store); ok {
				if a, ok := s.Addr.(*ssa.Alloc); ok && a.Comment == "rangeindex" {
					if c := fr.cellOf[a]; c != nil {
						if v, ok := st.cells[c]; ok {
							env.idxBy[l.ordinal] = v
						}
					}
				}
			}
		}
	}
	// pre(): the entry state of the innermost loop around the current block
	if fr.depth == 0 && vc.curBlk >= 0 {
		var best *loopInfo
		for _, l := range fr.loops {
			if l.entry == nil {
				continue
			}
			in := false
			for b := range l.blocks {
				if b.Index == vc.curBlk {
					in = true
				}
			}
			if in && (best == nil || len(l.blocks) < len(best.blocks)) {
				best = l
			}
		}
		if best != nil {
			env.pre = best.entry
		}
	}
	return env
}

// callOrdinal: the position of call x among the calls of the same callee in fn,
// in source order (cut points are named <callee>#<n>).
func callOrdinal(fn *ssa.Function, x *ssa.Call, name string) int {
	calleeName := func(c *ssa.Call) string {
		if b, ok := c.Call.Value.(*ssa.Builtin); ok {
			return b.Name()
		}
		if c.Call.IsInvoke() {
			// a devirtualised interface call counts as a call of the method
			if i := strings.LastIndex(name, "."); i >= 0 && name[i+1:] == c.Call.Method.Name() {
				return name
			}
			return ""
		}
		switch f := c.Call.Value.(type) {
		case *ssa.Function:
			return fnDisplayName(f)
		case *ssa.MakeClosure:
			return fnDisplayName(f.Fn.(*ssa.Function))
		}
		return ""
	}
	if !x.Pos().IsValid() {
		return -1 // compiler-generated call (e.g. the len of a range loop)
	}
	n := 0
	for _, b := range fn.Blocks {
		for _, in := range b.Instrs {
			c, ok := in.(*ssa.Call)
			if !ok || c == x || !c.Pos().IsValid() {
				continue
			}
			if calleeName(c) == name && c.Pos() < x.Pos() {
				n++
			}
		}
	}
	return n
}

// isFrameClause: the clause states a frame (by naming convention), as opposed
// to a value lemma.
func isFrameClause(name string) bool {
	for _, p := range []string{"frame", "loopframe", "kept", "lk", "maps-kept"} {
		if strings.HasPrefix(name, p) {
			return true
		}
	}
	return false
}

// bindCutResult makes the value returned by the call of an `after` cut point
// available as $result ($result0, $result1, … for several results).
func (vc *VC) bindCutResult(fr *Frame, env *Env) {
	r := fr.cutResult
	if r == nil {
		return
	}
	if len(r.Tup) > 0 {
		for i, v := range r.Tup {
			env.vars[fmt.Sprintf("$result%d", i)] = v
		}
		return
	}
	if r.S != "" || r.P != nil {
		env.vars["$result"] = r
	}
}
