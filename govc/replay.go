package main

// Turning solver models into native replays (go test -overlay).
//
// For a failed obligation whose query is satisfiable, the values of the
// function's parameters (and of the heap objects directly reachable from them)
// are read from the model with (get-value ...), turned into Go literals, and a
// generated in-package test calls the real function (or lemma harness) in a
// scratch overlay of /repo. The replay confirms the violation when
//   - a no-panic obligation failed and the call panics,
//   - a lemma failed and the harness returns false (or panics),
//   - a postcondition failed, the clause can be translated to Go, and it
//     evaluates to false on the real result.
// Anything else is reported with no-failing-input-found.

import (
	"encoding/json"
	"fmt"
	"go/types"
	"os"
	"os/exec"
	"path/filepath"
	"strconv"
	"strings"

	"golang.org/x/tools/go/ssa"
)

type sx struct {
	atom string
	str  bool
	list []*sx
}

func parseSx(s string) []*sx {
	var out []*sx
	p := 0
	var parse func() *sx
	skip := func() {
		for p < len(s) && (s[p] == ' ' || s[p] == '\n' || s[p] == '\t' || s[p] == '\r') {
			p++
		}
	}
	parse = func() *sx {
		skip()
		if p >= len(s) {
			return nil
		}
		if s[p] == '(' {
			p++
			n := &sx{list: []*sx{}}
			for {
				skip()
				if p >= len(s) {
					return n
				}
				if s[p] == ')' {
					p++
					return n
				}
				c := parse()
				if c == nil {
					return n
				}
				n.list = append(n.list, c)
			}
		}
		if s[p] == '"' {
			p++
			var b strings.Builder
			for p < len(s) {
				if s[p] == '"' {
					if p+1 < len(s) && s[p+1] == '"' {
						b.WriteByte('"')
						p += 2
						continue
					}
					p++
					break
				}
				b.WriteByte(s[p])
				p++
			}
			return &sx{atom: b.String(), str: true}
		}
		st := p
		for p < len(s) && !strings.ContainsRune(" \n\t\r()", rune(s[p])) {
			p++
		}
		return &sx{atom: s[st:p]}
	}
	for {
		n := parse()
		if n == nil {
			break
		}
		out = append(out, n)
	}
	return out
}

func (n *sx) isList() bool { return n.list != nil }

func (n *sx) intVal() (int64, string, bool) {
	if n == nil {
		return 0, "", false
	}
	if !n.isList() && !n.str {
		if _, err := strconv.ParseInt(n.atom, 10, 64); err == nil {
			v, _ := strconv.ParseInt(n.atom, 10, 64)
			return v, n.atom, true
		}
		// big numbers
		ok := len(n.atom) > 0
		for _, c := range n.atom {
			if c < '0' || c > '9' {
				ok = false
			}
		}
		if ok {
			return 0, n.atom, true
		}
		return 0, "", false
	}
	if n.isList() && len(n.list) == 2 && n.list[0].atom == "-" {
		_, s, ok := n.list[1].intVal()
		if ok {
			v, _ := strconv.ParseInt("-"+s, 10, 64)
			return v, "-" + s, true
		}
	}
	return 0, "", false
}

// smtStringToGo decodes SMT-LIB string escapes (\u{..}) into a Go string (bytes 0..255).
func smtStringToGo(s string) (string, bool) {
	var b []byte
	for i := 0; i < len(s); {
		if strings.HasPrefix(s[i:], "\\u{") {
			j := strings.Index(s[i:], "}")
			if j < 0 {
				return "", false
			}
			v, err := strconv.ParseInt(s[i+3:i+j], 16, 32)
			if err != nil || v > 255 {
				return "", false
			}
			b = append(b, byte(v))
			i += j + 1
			continue
		}
		b = append(b, s[i])
		i++
	}
	return string(b), true
}

type replayer struct {
	o           *checkOpts
	ob          *Obligation
	vc          *VC
	file        string // query file with get-value
	values      map[string]*sx
	ok          bool
	notes       []string
	stringPrefs string // extra assertions: string inputs use printable ASCII
}

func (r *replayer) note(f string, a ...any) { r.notes = append(r.notes, fmt.Sprintf(f, a...)) }

// getValues asks the solver that found the model for the values of terms.
func (r *replayer) getValues(terms []string) map[string]*sx {
	q := r.ob.query(false)
	q = strings.Replace(q, "(set-logic ALL)", "(set-option :produce-models true)\n(set-logic ALL)", 1)
	q = strings.Replace(q, "(check-sat)\n", r.stringPrefs+"(check-sat)\n", 1)
	q += "(get-value (" + strings.Join(terms, " ") + "))\n"
	tmp, _ := os.MkdirTemp("", "govc-replay")
	defer os.RemoveAll(tmp)
	f := filepath.Join(tmp, "m.smt2")
	os.WriteFile(f, []byte(q), 0o644)
	out := map[string]*sx{}
	for _, sp := range solvers {
		if sp.name == "cvc5" {
			continue
		}
		res := runSolver(sp, f, 10, 0)
		if res.status != "sat" {
			continue
		}
		body := res.output[strings.Index(res.output, "\n")+1:]
		xs := parseSx(body)
		if len(xs) == 0 || !xs[0].isList() {
			continue
		}
		for i, pair := range xs[0].list {
			if pair.isList() && len(pair.list) == 2 && i < len(terms) {
				out[terms[i]] = pair.list[1]
			}
		}
		if len(out) > 0 {
			return out
		}
	}
	return out
}

// goLit builds a Go expression for the model value of term (of Go type t).
// Heap-allocated inputs are declared in pre (statements before the call).
func (r *replayer) goLit(term string, t types.Type, pre *[]string, depth int) (string, bool) {
	u := r.vc.u
	if depth > 3 {
		return "", false
	}
	qual := func(t types.Type) string {
		return types.TypeString(t, func(p *types.Package) string {
			if p.Path() == "github.com/mfcochauxlaberge/jsonapi" {
				return ""
			}
			return p.Name()
		})
	}
	get := func(tm string) *sx {
		vs := r.getValues([]string{tm})
		return vs[tm]
	}
	if isTime(t) {
		v := get("(tinst " + term + ")")
		if n, _, ok := v.intVal(); ok {
			return fmt.Sprintf("time.Unix(0, 0).Add(time.Duration(%d))", n%1000000000000), true
		}
		return "", false
	}
	switch tt := types.Unalias(t).Underlying().(type) {
	case *types.Basic:
		v := get(term)
		if v == nil {
			return "", false
		}
		switch {
		case tt.Info()&types.IsBoolean != 0:
			return v.atom, v.atom == "true" || v.atom == "false"
		case tt.Info()&types.IsInteger != 0:
			_, s, ok := v.intVal()
			if !ok {
				return "", false
			}
			return qual(t) + "(" + s + ")", true
		case tt.Info()&types.IsString != 0:
			if !v.str {
				return "", false
			}
			g, ok := smtStringToGo(v.atom)
			if !ok {
				r.note("model string outside the byte alphabet")
				return "", false
			}
			return strconv.Quote(g), true
		}
	case *types.Struct:
		si := u.structOf(t)
		if si == nil {
			return "", false
		}
		var fs []string
		for i := 0; i < tt.NumFields(); i++ {
			fl, ok := r.goLit("("+si.fields[i]+" "+term+")", tt.Field(i).Type(), pre, depth+1)
			if !ok {
				return "", false
			}
			fs = append(fs, tt.Field(i).Name()+": "+fl)
		}
		return qual(t) + "{" + strings.Join(fs, ", ") + "}", true
	case *types.Pointer:
		v := get(term)
		n, _, ok := v.intVal()
		if !ok {
			return "", false
		}
		if n == 0 {
			return "(" + qual(t) + ")(nil)", true
		}
		key := u.heapKey(tt.Elem())
		el, ok := r.goLit("(select H0_"+key+" "+term+")", tt.Elem(), pre, depth+1)
		if !ok {
			return "", false
		}
		name := fmt.Sprintf("obj%d", len(*pre))
		*pre = append(*pre, fmt.Sprintf("%s := new(%s); *%s = %s", name, qual(tt.Elem()), name, el))
		return name, true
	case *types.Slice:
		vs := r.getValues([]string{"(sptr " + term + ")", "(slen " + term + ")"})
		p, _, ok1 := vs["(sptr "+term+")"].intVal()
		l, _, ok2 := vs["(slen "+term+")"].intVal()
		if !ok1 || !ok2 || l > 64 {
			return "", false
		}
		if p == 0 && l == 0 {
			return qual(t) + "(nil)", true
		}
		key := u.heapKey(tt.Elem())
		var es []string
		for i := int64(0); i < l; i++ {
			e, ok := r.goLit(fmt.Sprintf("(select H0_%s (+ (sptr %s) %d))", key, term, i), tt.Elem(), pre, depth+1)
			if !ok {
				return "", false
			}
			es = append(es, e)
		}
		return qual(t) + "{" + strings.Join(es, ", ") + "}", true
	case *types.Interface:
		vs := r.getValues([]string{"(atag " + term + ")"})
		tag, _, ok := vs["(atag "+term+")"].intVal()
		if !ok {
			return "", false
		}
		if tag == 0 {
			return "nil", true
		}
		dt, ok := u.tagTypes[int(tag)]
		if !ok {
			r.note("model uses a dynamic type outside the table (tag %d)", tag)
			return "", false
		}
		var inner string
		switch r.vc.ifaceRepr(dt) {
		case "num":
			if _, isPtr := types.Unalias(dt).Underlying().(*types.Pointer); isPtr {
				inner, ok = r.goLit("(anum "+term+")", dt, pre, depth+1)
			} else {
				inner, ok = r.goLit("(anum "+term+")", dt, pre, depth+1)
			}
		case "bool":
			v := get("(anum " + term + ")")
			n, _, ok2 := v.intVal()
			inner, ok = fmt.Sprint(n == 1), ok2
		case "str":
			inner, ok = r.goLit("(astr "+term+")", dt, pre, depth+1)
		case "slice":
			inner, ok = r.goLit("(asl "+term+")", dt, pre, depth+1)
		default:
			key := u.heapKey(dt)
			inner, ok = r.goLit("(select H0_"+key+" (anum "+term+"))", dt, pre, depth+1)
		}
		if !ok {
			return "", false
		}
		return "any(" + inner + ")", true
	}
	return "", false
}

func replayObligation(o *checkOpts, ob *Obligation) map[string]any {
	rp := map[string]any{
		"obligation":    ob.Name,
		"kind":          ob.Kind,
		"function":      ob.Func,
		"clause":        ob.Src,
		"position":      ob.Pos.String(),
		"solver":        ob.Solver,
		"solver_status": ob.Status,
		"solver_output": ob.Output,
		"confirmed":     false,
	}
	if ob.Status != "failed" || ob.Output != "sat" || ob.vc == nil || ob.vc.eng == nil {
		rp["replay_note"] = "the solver returned no model (" + ob.Status + "): the obligation is undischarged; no input to replay"
		return rp
	}
	if ob.Kind != "nopanic" && ob.Kind != "lemma" && ob.Kind != "post" {
		rp["replay_note"] = "obligations of kind " + ob.Kind + " have no native oracle: the countermodel is in solver_output terms only"
		return rp
	}
	eng := ob.vc.eng
	fn := eng.funcs[ob.Func]
	if fn == nil || len(ob.vc.params) != len(fn.Params) {
		rp["replay_note"] = "no parameter terms recorded"
		return rp
	}
	r := &replayer{o: o, ob: ob, vc: ob.vc}
	// prefer models whose strings are printable ASCII (replayable and readable);
	// fall back to the unconstrained model if there is none
	var prefs []string
	for i, p := range fn.Params {
		for _, st := range stringLeaves(ob.vc, ob.vc.params[i].S, p.Type(), 0) {
			if strings.HasPrefix(st, "SLICE:") {
				prefs = append(prefs, "(assert (<= (slen "+st[6:]+") 4))")
				continue
			}
			prefs = append(prefs, "(assert (str.in_re "+st+" (re.* (re.range \" \" \"~\"))))")
		}
	}
	r.stringPrefs = strings.Join(prefs, "\n") + "\n"
	if len(prefs) > 0 {
		if vs := r.getValues([]string{"true"}); len(vs) == 0 {
			r.stringPrefs = ""
		}
	}
	var pre []string
	var args []string
	inputs := map[string]string{}
	for i, p := range fn.Params {
		lit, ok := r.goLit(ob.vc.params[i].S, p.Type(), &pre, 0)
		if !ok {
			rp["replay_note"] = fmt.Sprintf("cannot turn the model value of parameter %s (%s) into a Go input: %s", p.Name(), typeStr(p.Type()), strings.Join(r.notes, "; "))
			return rp
		}
		args = append(args, lit)
		inputs[p.Name()] = lit
	}
	rp["inputs"] = inputs
	rp["input_setup"] = pre
	test, expect := buildReplayTest(eng, fn, ob, pre, args)
	if test == "" {
		rp["replay_note"] = "this kind of obligation has no native oracle (" + expect + ")"
		return rp
	}
	rp["go_test"] = test
	out, err := runOverlayTest(o.repo, test)
	rp["native_output"] = out
	if err != nil {
		rp["replay_note"] = "replay could not be run: " + err.Error()
		return rp
	}
	switch {
	case strings.Contains(out, "GOVC-REPLAY: VIOLATED"):
		rp["confirmed"] = true
	case strings.Contains(out, "GOVC-REPLAY: HOLDS"):
		rp["replay_note"] = "the real code satisfies the obligation on the model's input (model relies on an assumed contract being weaker than the real dependency, or on heap shapes the replay cannot build)"
	default:
		rp["replay_note"] = "replay produced no verdict"
	}
	return rp
}

// buildReplayTest returns the Go source of the replay test and a description of the oracle.
func buildReplayTest(eng *Engine, fn *ssa.Function, ob *Obligation, pre, args []string) (string, string) {
	var call string
	name := fn.Name()
	if fn.Signature.Recv() != nil {
		call = "(" + args[0] + ")." + name + "(" + strings.Join(args[1:], ", ") + ")"
	} else {
		call = name + "(" + strings.Join(args, ", ") + ")"
	}
	nres := fn.Signature.Results().Len()
	var b strings.Builder
	b.WriteString("package jsonapi\n\nimport (\n\t\"fmt\"\n\t\"testing\"\n\t\"time\"\n)\n\nvar _ = time.Now\nvar _ = fmt.Sprint\n\n")
	b.WriteString("func TestGovcReplay(t *testing.T) {\n")
	oracle := ""
	switch ob.Kind {
	case "nopanic":
		oracle = "panic expected"
		b.WriteString("\tdefer func() {\n\t\tif r := recover(); r != nil {\n\t\t\tfmt.Println(\"GOVC-REPLAY: VIOLATED: panic:\", r)\n\t\t\treturn\n\t\t}\n\t\tfmt.Println(\"GOVC-REPLAY: HOLDS: no panic\")\n\t}()\n")
		for _, p := range pre {
			b.WriteString("\t" + p + "\n")
		}
		if nres > 0 {
			b.WriteString("\t_" + strings.Repeat(", _", nres-1) + " = " + call + "\n")
		} else {
			b.WriteString("\t" + call + "\n")
		}
	case "lemma":
		oracle = "lemma returns false or panics"
		b.WriteString("\tdefer func() {\n\t\tif r := recover(); r != nil {\n\t\t\tfmt.Println(\"GOVC-REPLAY: VIOLATED: panic:\", r)\n\t\t}\n\t}()\n")
		for _, p := range pre {
			b.WriteString("\t" + p + "\n")
		}
		b.WriteString("\tif " + call + " {\n\t\tfmt.Println(\"GOVC-REPLAY: HOLDS: lemma returned true\")\n\t} else {\n\t\tfmt.Println(\"GOVC-REPLAY: VIOLATED: lemma returned false\")\n\t}\n")
	case "post":
		// translate the clause
		con := eng.contracts[ob.Func]
		var clause *Clause
		if con != nil {
			for _, c := range con.Ensures {
				if ob.Name == ob.Func+"/post/"+c.Name {
					clause = c
				}
			}
		}
		if clause == nil {
			return "", "clause not found"
		}
		g := &goEmitter{eng: eng, fn: fn}
		// bind parameters to locals so that the clause can name them
		var names []string
		if rcv := fn.Signature.Recv(); rcv != nil {
			names = append(names, rcv.Name())
		}
		for i := 0; i < fn.Signature.Params().Len(); i++ {
			names = append(names, fn.Signature.Params().At(i).Name())
		}
		expr, ok := g.emit(clause.E)
		if !ok {
			return "", "clause not translatable to Go: " + g.why
		}
		oracle = "clause evaluates to false"
		b.WriteString("\tdefer func() {\n\t\tif r := recover(); r != nil {\n\t\t\tfmt.Println(\"GOVC-REPLAY: VIOLATED: panic:\", r)\n\t\t}\n\t}()\n")
		for _, p := range pre {
			b.WriteString("\t" + p + "\n")
		}
		var callArgs []string
		for i, n := range names {
			if n == "" || n == "_" {
				n = fmt.Sprintf("arg%d", i)
			}
			b.WriteString(fmt.Sprintf("\t%s := %s\n\t_ = %s\n", n, args[i], n))
			callArgs = append(callArgs, n)
		}
		var c2 string
		if fn.Signature.Recv() != nil {
			c2 = "(" + callArgs[0] + ")." + name + "(" + strings.Join(callArgs[1:], ", ") + ")"
		} else {
			c2 = name + "(" + strings.Join(callArgs, ", ") + ")"
		}
		switch nres {
		case 0:
			b.WriteString("\t" + c2 + "\n")
		case 1:
			b.WriteString("\tresult := " + c2 + "\n\t_ = result\n")
		default:
			var rs []string
			for i := 0; i < nres; i++ {
				rs = append(rs, fmt.Sprintf("result%d", i))
			}
			b.WriteString("\t" + strings.Join(rs, ", ") + " := " + c2 + "\n")
			for _, x := range rs {
				b.WriteString("\t_ = " + x + "\n")
			}
		}
		b.WriteString("\tif " + expr + " {\n\t\tfmt.Println(\"GOVC-REPLAY: HOLDS: clause true\")\n\t} else {\n\t\tfmt.Println(\"GOVC-REPLAY: VIOLATED: clause false\")\n\t}\n")
	default:
		return "", "obligation kind " + ob.Kind
	}
	b.WriteString("}\n")
	return b.String(), oracle
}

// goEmitter translates the quantifier-free, heap-free fragment of the
// specification language into Go.
type goEmitter struct {
	eng *Engine
	fn  *ssa.Function
	why string
	sub map[string]string
}

func (g *goEmitter) fail(f string, a ...any) (string, bool) {
	if g.why == "" {
		g.why = fmt.Sprintf(f, a...)
	}
	return "", false
}

func (g *goEmitter) emit(x SExpr) (string, bool) {
	switch n := x.(type) {
	case *sParen:
		s, ok := g.emit(n.SExpr)
		return "(" + s + ")", ok
	case *SInt:
		return n.V, true
	case *SStr:
		return strconv.Quote(n.V), true
	case *SBool:
		return fmt.Sprint(n.V), true
	case *SNil:
		return "nil", true
	case *SIdent:
		if s, ok := g.sub[n.Name]; ok {
			return s, true
		}
		if strings.HasPrefix(n.Name, "$") {
			return g.fail("ghost identifier %s", n.Name)
		}
		return n.Name, true
	case *SUnary:
		s, ok := g.emit(n.X)
		if !ok {
			return "", false
		}
		if n.Op == "*" {
			return "(*" + s + ")", true
		}
		return "(" + n.Op + s + ")", true
	case *SBinary:
		a, ok1 := g.emit(n.X)
		b, ok2 := g.emit(n.Y)
		if !ok1 || !ok2 {
			return "", false
		}
		switch n.Op {
		case "==>":
			return "(!(" + a + ") || (" + b + "))", true
		case "<==>":
			return "((" + a + ") == (" + b + "))", true
		case "in", "!in":
			return g.fail("map membership")
		}
		return "(" + a + " " + n.Op + " " + b + ")", true
	case *SSel:
		s, ok := g.emit(n.X)
		return s + "." + n.Name, ok
	case *SCall:
		switch n.Fun {
		case "len":
			s, ok := g.emit(n.Args[0])
			return "len(" + s + ")", ok
		case "ite":
			c, ok1 := g.emit(n.Args[0])
			a, ok2 := g.emit(n.Args[1])
			b, ok3 := g.emit(n.Args[2])
			if !ok1 || !ok2 || !ok3 {
				return "", false
			}
			return "func() any { if " + c + " { return " + a + " }; return " + b + " }()", true
		case "inst":
			s, ok := g.emit(n.Args[0])
			return s + ".UnixNano()", ok
		}
		if sf, ok := g.eng.specFuncs[n.Fun]; ok {
			if len(sf.Params) != len(n.Args) {
				return g.fail("arity")
			}
			old := g.sub
			ns := map[string]string{}
			for k, v := range old {
				ns[k] = v
			}
			for i, p := range sf.Params {
				a, ok := g.emit(n.Args[i])
				if !ok {
					return "", false
				}
				ns[p.Name] = "(" + a + ")"
			}
			g.sub = ns
			s, ok := g.emit(sf.Body)
			g.sub = old
			return "(" + s + ")", ok
		}
		if pf := g.eng.pureFunc(n.Fun); pf != nil {
			var as []string
			for _, a := range n.Args {
				s, ok := g.emit(a)
				if !ok {
					return "", false
				}
				as = append(as, s)
			}
			return n.Fun + "(" + strings.Join(as, ", ") + ")", true
		}
		return g.fail("function %s has no Go counterpart", n.Fun)
	case *SMCall:
		recv, ok := g.emit(n.X)
		if !ok {
			return "", false
		}
		if id, isID := n.X.(*SIdent); isID && g.eng.u.pkg.Scope().Lookup(id.Name) != nil {
			if _, isType := g.eng.u.pkg.Scope().Lookup(id.Name).(*types.TypeName); isType {
				// Type.Method(x, args...)  ==  x.Method(args...)
				if len(n.Args) == 0 {
					return g.fail("static method call without receiver")
				}
				r0, ok := g.emit(n.Args[0])
				if !ok {
					return "", false
				}
				var as []string
				for _, a := range n.Args[1:] {
					s, ok := g.emit(a)
					if !ok {
						return "", false
					}
					as = append(as, s)
				}
				rt := "any"
				if pf := g.eng.pureFunc(id.Name + "." + n.Name); pf != nil && pf.fn.Signature.Results().Len() == 1 {
					rt = types.TypeString(pf.fn.Signature.Results().At(0).Type(), func(p *types.Package) string {
						if p.Path() == "github.com/mfcochauxlaberge/jsonapi" {
							return ""
						}
						return p.Name()
					})
				}
				return "func() " + rt + " { v := " + r0 + "; return v." + n.Name + "(" + strings.Join(as, ", ") + ") }()", true
			}
		}
		var as []string
		for _, a := range n.Args {
			s, ok := g.emit(a)
			if !ok {
				return "", false
			}
			as = append(as, s)
		}
		return recv + "." + n.Name + "(" + strings.Join(as, ", ") + ")", true
	}
	if q, ok := x.(*SQuant); ok {
		// integer-indexed quantifiers are evaluated over a small range: inputs built
		// by the replay have at most 64 elements, and guards short-circuit in Go
		body, ok := g.emit(q.Body)
		if !ok {
			return "", false
		}
		for _, v := range q.Vars {
			if v.Type != "int" {
				return g.fail("quantifier over %s", v.Type)
			}
		}
		var b strings.Builder
		b.WriteString("func() bool { ")
		for _, v := range q.Vars {
			fmt.Fprintf(&b, "for %s := -2; %s <= 70; %s++ { ", v.Name, v.Name, v.Name)
		}
		if q.Forall {
			b.WriteString("if !(" + body + ") { return false }; ")
		} else {
			b.WriteString("if " + body + " { return true }; ")
		}
		for range q.Vars {
			b.WriteString("}; ")
		}
		if q.Forall {
			b.WriteString("return true }()")
		} else {
			b.WriteString("return false }()")
		}
		return b.String(), true
	}
	if ix, ok := x.(*SIndex); ok {
		a, ok1 := g.emit(ix.X)
		i, ok2 := g.emit(ix.I)
		if !ok1 || !ok2 {
			return "", false
		}
		return a + "[" + i + "]", true
	}
	return g.fail("%T is outside the translatable fragment", x)
}

// runOverlayTest injects the test into a copy-free overlay of repo and runs it.
func runOverlayTest(repo, test string) (string, error) {
	return runOverlayTestNamed(repo, test, "TestGovcReplay")
}

func runOverlayTestNamed(repo, test, name string) (string, error) {
	tmp, err := os.MkdirTemp("", "govc-overlay")
	if err != nil {
		return "", err
	}
	defer os.RemoveAll(tmp)
	tf := filepath.Join(tmp, "zz_govc_replay_test.go")
	if err := os.WriteFile(tf, []byte(test), 0o644); err != nil {
		return "", err
	}
	ov := map[string]any{"Replace": map[string]string{filepath.Join(repo, "zz_govc_replay_test.go"): tf}}
	ob, _ := json.Marshal(ov)
	of := filepath.Join(tmp, "overlay.json")
	os.WriteFile(of, ob, 0o644)
	cmd := exec.Command("go", "test", "-overlay", of, "-tags", "verif", "-vet=off", "-count=1", "-timeout", "60s", "-run", "^"+name+"$", "-v", ".")
	cmd.Dir = repo
	cmd.Env = append(os.Environ(), "GOFLAGS=-mod=mod", "GOPROXY=off", "GOSUMDB=off", "GOTOOLCHAIN=local")
	out, err := cmd.CombinedOutput()
	s := string(out)
	if len(s) > 4000 {
		s = s[:4000]
	}
	if err != nil && !strings.Contains(s, "GOVC-REPLAY:") && !strings.Contains(s, "GOVC-WITNESS:") {
		return s, fmt.Errorf("go test: %v", err)
	}
	return s, nil
}

func cmdReplayFile(path string) int {
	b, err := os.ReadFile(path)
	if err != nil {
		fmt.Println(err)
		return 2
	}
	var rp map[string]any
	if err := json.Unmarshal(b, &rp); err != nil {
		fmt.Println(err)
		return 2
	}
	fmt.Printf("obligation: %v\nclause: %v\nconfirmed: %v\n", rp["obligation"], rp["clause"], rp["confirmed"])
	test, _ := rp["go_test"].(string)
	if test == "" {
		fmt.Println("no native replay stored:", rp["replay_note"])
		return 0
	}
	out, err := runOverlayTest("/repo", test)
	fmt.Println(out)
	if err != nil {
		fmt.Println(err)
		return 2
	}
	if strings.Contains(out, "GOVC-REPLAY: VIOLATED") {
		return 1
	}
	return 0
}

// stringLeaves lists the string-valued terms reachable from a parameter
// (struct fields, pointees, interface payloads) without consulting a model.
func stringLeaves(vc *VC, term string, t types.Type, depth int) []string {
	if depth > 3 || isTime(t) {
		return nil
	}
	switch tt := types.Unalias(t).Underlying().(type) {
	case *types.Basic:
		if tt.Info()&types.IsString != 0 {
			return []string{term}
		}
	case *types.Struct:
		si := vc.u.structOf(t)
		if si == nil {
			return nil
		}
		var out []string
		for i := 0; i < tt.NumFields(); i++ {
			out = append(out, stringLeaves(vc, "("+si.fields[i]+" "+term+")", tt.Field(i).Type(), depth+1)...)
		}
		return out
	case *types.Pointer:
		if _, ok := vc.u.heapKeys[vc.u.heapKey(tt.Elem())]; ok {
			return stringLeaves(vc, "(select H0_"+vc.u.heapKey(tt.Elem())+" "+term+")", tt.Elem(), depth+1)
		}
	case *types.Interface:
		return []string{"(astr " + term + ")", "SLICE:(asl " + term + ")"}
	case *types.Slice:
		out := []string{"SLICE:" + term}
		if _, ok := vc.u.heapKeys[vc.u.heapKey(tt.Elem())]; ok {
			for i := 0; i < 4; i++ {
				out = append(out, stringLeaves(vc, fmt.Sprintf("(select H0_%s (+ (sptr %s) %d))", vc.u.heapKey(tt.Elem()), term, i), tt.Elem(), depth+1)...)
			}
		}
		return out
	}
	return nil
}
