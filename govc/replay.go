package main

// Turning solver models into native replays (go test -overlay).

func replayObligation(o *checkOpts, ob *Obligation) map[string]any {
	rp := map[string]any{
		"obligation":    ob.Name,
		"kind":          ob.Kind,
		"function":      ob.Func,
		"clause":        ob.Src,
		"position":      ob.Pos.String(),
		"solver":        ob.Solver,
		"solver_status": ob.Status,
		"solver_output": ob.Output,
		"model":         ob.Model,
		"confirmed":     false,
	}
	return rp
}
