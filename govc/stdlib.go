package main

// Builtins, interface invocations, and the table of assumed contracts for
// functions outside the package.

import (
	"fmt"
	"go/token"
	"go/types"
	"regexp"
	"sort"
	"strings"

	"golang.org/x/tools/go/ssa"
)

func sliceElem(t types.Type) types.Type {
	if s, ok := types.Unalias(t).Underlying().(*types.Slice); ok {
		return s.Elem()
	}
	return nil
}

func (vc *VC) builtin(fr *Frame, st *State, x *ssa.Call, name string, args []*Val) *Val {
	switch name {
	case "len":
		a := args[0]
		switch at := types.Unalias(a.T).Underlying().(type) {
		case *types.Slice:
			return &Val{T: tInt, S: "(slen " + a.S + ")"}
		case *types.Basic:
			return &Val{T: tInt, S: "(str.len " + a.S + ")"}
		case *types.Map:
			_, _, _, card := vc.mapArrays(st, at)
			l := vc.define("mlen", "Int", ite("(= "+a.S+" 0)", "0", "(select "+card+" "+a.S+")"))
			// a map holds fewer than 2^56 entries (it has to fit in memory)
			vc.assume("(and (>= " + l + " 0) (< " + l + " 72057594037927936))")
			// a map has no entries iff its length is zero (finite maps)
			_, dom, _, _ := vc.mapArrays(st, at)
			ks := vc.u.sortOf(at.Key())
			dm := "(select " + dom + " " + a.S + ")"
			vc.assume(fmt.Sprintf("(=> (and (not (= %s 0)) (= %s 0)) (forall ((k %s)) (! (not (select %s k)) :pattern ((select %s k)))))", a.S, l, ks, dm, dm))
			w := vc.fresh("mapwit", ks)
			vc.assume(fmt.Sprintf("(=> (> %s 0) (and (not (= %s 0)) (select %s %s)))", l, a.S, dm, w))
			return &Val{T: tInt, S: l}
		}
	case "cap":
		if sliceElem(args[0].T) != nil {
			return &Val{T: tInt, S: "(scap " + args[0].S + ")"}
		}
	case "append":
		return vc.doAppend(fr, st, x, args)
	case "copy":
		return vc.doCopy(fr, st, x, args)
	case "delete":
		mt := types.Unalias(args[0].T).Underlying().(*types.Map)
		vc.mapDelete(st, args[0], args[1].S, mt)
		return &Val{T: x.Type()}
	case "ssa:deferstack":
		return &Val{T: x.Type(), S: "0"}
	case "print", "println":
		return &Val{T: x.Type()}
	}
	vc.unsupported(st, "builtin:"+name, vc.pos(x.Pos()))
	return vc.havocVal(x.Type(), "bi")
}

func (vc *VC) doAppend(fr *Frame, st *State, x *ssa.Call, args []*Val) *Val {
	s, t := args[0], args[1]
	et := sliceElem(s.T)
	key, h := vc.heap(st, et)
	es := vc.u.sortOf(vc.u.heapKeys[key])
	var n, tptr string
	tIsString := isStringT(t.T)
	if tIsString {
		n = "(str.len " + t.S + ")"
	} else {
		n = vc.define("apn", "Int", "(slen "+t.S+")")
		tptr = "(sptr " + t.S + ")"
	}
	l := vc.define("apl", "Int", "(slen "+s.S+")")
	inplace := vc.define("inplace", "Bool", fmt.Sprintf("(<= (+ %s %s) (scap %s))", l, n, s.S))
	newcap := vc.fresh("newcap", "Int")
	vc.assume(fmt.Sprintf("(>= %s (+ %s %s))", newcap, l, n))
	np := vc.allocate(st, newcap)
	vc.assume("(> " + np + " 0)")
	src := func(off string) string { // element off of t
		if tIsString {
			return "(str.to_code (str.at " + t.S + " " + off + "))"
		}
		return "(select " + h + " (+ " + tptr + " " + off + "))"
	}
	// in-place version
	var hin string
	if t.KLen > 0 && t.KLen <= 4 {
		hin = h
		for i := 0; i < t.KLen; i++ {
			hin = fmt.Sprintf("(store %s (idx (sptr %s) (+ %s %d)) %s)", hin, s.S, l, i, src(fmt.Sprint(i)))
		}
	} else {
		hin = vc.fresh("Hin_"+key, "(Array Int "+es+")")
		dst := "(+ (sptr " + s.S + ") " + l + ")"
		vc.assume(fmt.Sprintf("(forall ((a Int)) (! (= (select %s a) (ite (and (<= %s a) (< a (+ %s %s))) %s (select %s a))) :pattern ((select %s a))))",
			hin, dst, dst, n, src("(- a "+dst+")"), h, hin))
	}
	// reallocating version
	hre := vc.fresh("Hre_"+key, "(Array Int "+es+")")
	if t.KLen > 0 && t.KLen <= 4 {
		// copy of the old elements (quantified), then the new elements by explicit stores
		hcp := vc.fresh("Hcp_"+key, "(Array Int "+es+")")
		vc.assume(fmt.Sprintf("(forall ((a Int)) (! (= (select %s a) (ite (and (<= %s a) (< a (+ %s %s))) (select %s (+ (sptr %s) (- a %s))) (select %s a))) :pattern ((select %s a))))",
			hcp, np, np, l, h, s.S, np, h, hcp))
		// the same copy, stated forwards (trigger on the source element)
		vc.assume(fmt.Sprintf("(forall ((a Int)) (! (=> (and (<= (sptr %s) a) (< a (+ (sptr %s) %s))) (= (select %s (+ %s (- a (sptr %s)))) (select %s a))) :pattern ((select %s a))))",
			s.S, s.S, l, hcp, np, s.S, h, h))
		cur := hcp
		for i := 0; i < t.KLen; i++ {
			cur = fmt.Sprintf("(store %s (+ %s %s %d) %s)", cur, np, l, i, src(fmt.Sprint(i)))
		}
		vc.assume(eq(hre, cur))
	} else {
		vc.assume(fmt.Sprintf("(forall ((a Int)) (! (= (select %s a) (ite (and (<= %s a) (< a (+ %s %s))) (select %s (+ (sptr %s) (- a %s))) (ite (and (<= (+ %s %s) a) (< a (+ %s %s %s))) %s (select %s a)))) :pattern ((select %s a))))",
			hre, np, np, l, h, s.S, np, np, l, np, l, n, src("(- a (+ "+np+" "+l+"))"), h, hre))
	}
	nh := vc.fresh("H_"+key, "(Array Int "+es+")")
	vc.assume(eq(nh, ite(inplace, hin, hre)))
	st.heaps[key] = nh
	res := vc.fresh("app", "Slice")
	vc.assume(eq(res, ite(inplace,
		fmt.Sprintf("(mkSlice (sptr %s) (+ %s %s) (scap %s))", s.S, l, n, s.S),
		fmt.Sprintf("(mkSlice %s (+ %s %s) %s)", np, l, n, newcap))))
	// forward form of "the old elements are still there": triggered by reads of the
	// old heap, it produces the corresponding read of the new heap (in place: same
	// address; reallocated: moved to the new block)
	if t.KLen > 0 {
		vc.assume(fmt.Sprintf("(forall ((a Int)) (! (=> (and (<= (sptr %s) a) (< a (+ (sptr %s) %s))) (= (select %s (ite %s a (+ %s (- a (sptr %s))))) (select %s a))) :pattern ((select %s a))))",
			s.S, s.S, l, nh, inplace, np, s.S, h, h))
	}
	// index form: element k of the result is element k of the operand (trigger:
	// an indexed read of the result)
	if !vc.absQuant {
		vc.assume(fmt.Sprintf("(forall ((k Int)) (! (=> (and (<= 0 k) (< k %s)) (= (select %s (idx (sptr %s) k)) (select %s (idx (sptr %s) k)))) :pattern ((idx (sptr %s) k))))",
			l, nh, res, h, s.S, res))
	}
	// ground facts about the appended elements (they seed quantifier instantiation)
	if t.KLen > 0 && t.KLen <= 4 {
		for i := 0; i < t.KLen; i++ {
			vc.assume(fmt.Sprintf("(= (select %s (+ (sptr %s) %s %d)) %s)", nh, res, l, i, src(fmt.Sprint(i))))
		}
	}
	return &Val{T: s.T, S: res}
}

func (vc *VC) doCopy(fr *Frame, st *State, x *ssa.Call, args []*Val) *Val {
	d, s := args[0], args[1]
	et := sliceElem(d.T)
	key, h := vc.heap(st, et)
	es := vc.u.sortOf(vc.u.heapKeys[key])
	var slen string
	var src func(off string) string
	if isStringT(s.T) {
		slen = "(str.len " + s.S + ")"
		src = func(off string) string { return "(str.to_code (str.at " + s.S + " " + off + "))" }
	} else {
		slen = "(slen " + s.S + ")"
		src = func(off string) string { return "(select " + h + " (+ (sptr " + s.S + ") " + off + "))" }
	}
	n := vc.define("cpn", "Int", fmt.Sprintf("(ite (< (slen %s) %s) (slen %s) %s)", d.S, slen, d.S, slen))
	nh := vc.fresh("H_"+key, "(Array Int "+es+")")
	dst := "(sptr " + d.S + ")"
	vc.assume(fmt.Sprintf("(forall ((a Int)) (! (= (select %s a) (ite (and (<= %s a) (< a (+ %s %s))) %s (select %s a))) :pattern ((select %s a))))",
		nh, dst, dst, n, src("(- a "+dst+")"), h, nh))
	st.heaps[key] = nh
	return &Val{T: tInt, S: n}
}

// ---- interface method calls -------------------------------------------------------------------

func (vc *VC) invoke(fr *Frame, st *State, x *ssa.Call, recv *Val, args []*Val) *Val {
	c := x.Call
	mname := c.Method.Name()
	vc.safety(fr, st, "nilptr", "(not (= (atag "+recv.S+") 0))", x.Pos(), c.Value.Name()+"."+mname+"()")
	sig := c.Method.Type().(*types.Signature)
	// error.Error(): pure, opaque
	if mname == "Error" && sig.Params().Len() == 0 && sig.Results().Len() == 1 && isStringT(sig.Results().At(0).Type()) {
		vc.u.declareUninterp("error_text", []string{"Any"}, "String")
		return &Val{T: tString, S: "(error_text " + recv.S + ")"}
	}
	if fr.depth == 0 && fr.con != nil && fr.con.Flags["devirt"] && !fr.inDevirt {
		if r := vc.devirt(fr, st, x, recv, args); r != nil {
			return r
		}
	}
	con := vc.eng.ifaceContract(c.Value.Type(), mname)
	if con == nil {
		vc.uncontr["invoke:"+typeStr(c.Value.Type())+"."+mname] = true
		ms := newModSet()
		ms.all = true
		vc.havoc(fr, st, ms, "invoke")
		return vc.havocVal(x.Type(), "iv")
	}
	name := con.Func
	vc.assumed["iface-contract:"+name] = true
	var names []string
	for i := 0; i < sig.Params().Len(); i++ {
		names = append(names, sig.Params().At(i).Name())
	}
	vars := map[string]*Val{"self": recv}
	for i, a := range args {
		if i < len(names) && names[i] != "" {
			vars[names[i]] = a
		}
		vars[fmt.Sprintf("arg%d", i)] = a
	}
	results := vc.applyContract(fr, st, x.Pos(), name, con, vars, sig.Results())
	return tupleOrSingle(x.Type(), results)
}

// devirt splits an interface method call on the dynamic type of the receiver:
// for every implementation in the package that has a contract for the method,
// the case "the receiver is of that type" is the call of that method (checked
// against its contract); the remaining case goes through the interface
// contract. A case split on the dynamic type is exhaustive, so this is exact.
func (vc *VC) devirt(fr *Frame, st *State, x *ssa.Call, recv *Val, args []*Val) *Val {
	c := x.Call
	mname := c.Method.Name()
	iface, ok := types.Unalias(c.Value.Type()).Underlying().(*types.Interface)
	if !ok {
		return nil
	}
	cands := vc.devirtCands(iface, mname)
	if len(cands) == 0 {
		return nil
	}
	var sts []*State
	var vals []*Val
	var conds []string
	var negs []string
	for _, cd := range cands {
		cond := fmt.Sprintf("(= (atag %s) %d)", recv.S, cd.tag)
		negs = append(negs, not(cond))
		s2 := st.clone()
		s2.reach = vc.define("rc", "Bool", and(st.reach, cond))
		rv := vc.unbox(s2, recv.S, cd.rt)
		for _, f := range vc.wfFacts(rv.S, cd.rt, 0) {
			vc.assume(implies(s2.reach, f))
		}
		r := vc.callFunc(fr, s2, x, cd.fn, append([]*Val{rv}, args...), nil)
		sts = append(sts, s2)
		vals = append(vals, r)
		conds = append(conds, s2.reach)
	}
	if fr.con.Flags["devirt-closed"] {
		// the receiver is proved to be one of the contracted implementations:
		// no residual case
		var pos []string
		for _, n := range negs {
			pos = append(pos, not(n))
		}
		g := or(pos...)
		vc.oblige(st, "assert", "devirt-closed/"+mname, g, vc.pos(x.Pos()), "the receiver of "+mname+" is one of the contracted implementations")
		vc.assume(implies(st.reach, g))
	} else {
		s3 := st.clone()
		s3.reach = vc.define("rc", "Bool", and(append([]string{st.reach}, negs...)...))
		fr.inDevirt = true
		r3 := vc.invoke(fr, s3, x, recv, args)
		fr.inDevirt = false
		sts = append(sts, s3)
		vals = append(vals, r3)
		conds = append(conds, s3.reach)
	}
	m := vc.mergeStates(sts, "devirt")
	*st = *m
	if tup, ok := x.Type().(*types.Tuple); ok && tup.Len() == 0 {
		return &Val{T: x.Type()}
	}
	if tup, ok := x.Type().(*types.Tuple); ok {
		var out []*Val
		for k := 0; k < tup.Len(); k++ {
			var vs []*Val
			for _, v := range vals {
				vs = append(vs, v.Tup[k])
			}
			mv, ok := vc.mergeVals(conds, vs, "dv")
			if !ok {
				mv = vc.havocVal(tup.At(k).Type(), "dv")
			}
			out = append(out, mv)
		}
		return &Val{T: x.Type(), Tup: out}
	}
	mv, ok2 := vc.mergeVals(conds, vals, "dv")
	if !ok2 {
		vc.unsupported(st, "devirt-merge", vc.pos(x.Pos()))
		return vc.havocVal(x.Type(), "dv")
	}
	return mv
}

type devirtCand struct {
	fn  *ssa.Function
	rt  types.Type
	tag int
}

func (vc *VC) devirtCands(iface *types.Interface, mname string) []devirtCand {
	var cands []devirtCand
	var names []string
	for name := range vc.eng.contracts {
		names = append(names, name)
	}
	sort.Strings(names)
	for _, name := range names {
		if !strings.HasSuffix(name, "."+mname) {
			continue
		}
		f := vc.eng.funcs[name]
		if f == nil || f.Signature.Recv() == nil {
			continue
		}
		rt := f.Signature.Recv().Type()
		if !types.Implements(rt, iface) {
			continue
		}
		cands = append(cands, devirtCand{f, rt, vc.u.tagOf(rt)})
	}
	return cands
}

// applyContract: assert requires, apply modifies, assume ensures over fresh results.
func (vc *VC) applyContract(fr *Frame, st *State, pos token.Pos, name string, con *Contract, vars map[string]*Val, rs *types.Tuple) []*Val {
	n := fr.idxN["call:"+name]
	fr.idxN["call:"+name] = n + 1
	old := st.clone()
	env := &Env{vc: vc, st: st, old: old, vars: vars}
	for _, c := range con.Requires {
		g, err := env.evalBool(c.E)
		if err != nil {
			vc.oblige(st, "spec-error", fmt.Sprintf("%spre@%s#%d/%s", fr.prefix, name, n, c.Name), "false", vc.pos(pos), err.Error())
			continue
		}
		vc.oblige(st, "pre", fmt.Sprintf("%s%s#%d/%s", fr.prefix, name, n, c.Name), g, vc.pos(pos), c.Src)
		vc.assume(implies(st.reach, g))
	}
	vc.applyModifies(fr, st, old, con, env)
	var results []*Val
	nv := map[string]*Val{}
	for k, v := range vars {
		nv[k] = v
	}
	for i := 0; i < rs.Len(); i++ {
		v := vc.havocVal(rs.At(i).Type(), "r_"+mangle(name))
		vc.assumeRefsBelow(st, v.S, rs.At(i).Type())
		results = append(results, v)
		if nm := rs.At(i).Name(); nm != "" && nm != "_" {
			nv[nm] = v
		}
		nv[fmt.Sprintf("result%d", i)] = v
	}
	if len(results) == 1 {
		nv["result"] = results[0]
	}
	env2 := &Env{vc: vc, st: st, old: old, vars: nv}
	for _, c := range con.Ensures {
		g, err := env2.evalBool(c.E)
		if err != nil {
			vc.oblige(st, "spec-error", fmt.Sprintf("%spost@%s#%d/%s", fr.prefix, name, n, c.Name), "false", vc.pos(pos), err.Error())
			continue
		}
		vc.assume(implies(st.reach, g))
	}
	return results
}

// ---- external functions ---------------------------------------------------------------------------

type stdHandler func(vc *VC, fr *Frame, st *State, x *ssa.Call, args []*Val) *Val
type stdEffect func(vc *VC, x *ssa.Call, ms *ModSet)

func noEffect(vc *VC, x *ssa.Call, ms *ModSet) {}

func allocOnly(vc *VC, x *ssa.Call, ms *ModSet) { ms.alloc = true }

func extName(f *ssa.Function) string { return fnDisplayName(f) }

func (vc *VC) freshError(st *State, nonNil bool) *Val {
	it := types.Universe.Lookup("error").Type()
	e := vc.fresh("err", "Any")
	vc.assumeWF(e, it)
	if nonNil {
		vc.assume("(not (= (atag " + e + ") 0))")
	}
	return &Val{T: it, S: e}
}

var pureOpaque = map[string]bool{
	"fmt.Sprintf": true, "fmt.Sprint": true, "fmt.Errorf": true, "errors.New": true,
	"http.StatusText": true, "strings.Join": true, "strings.Title": true, "strings.ToLower": true, "strings.ToUpper": true,
	"strings.TrimSpace": true, "strings.Repeat": true, "strings.Replace": true, "strings.ReplaceAll": true,
	"strconv.Itoa": true, "strconv.FormatInt": true, "strconv.FormatUint": true, "strconv.Quote": true,
	"url.PathEscape": true, "url.QueryEscape": true, "url.PathUnescape": true, "url.QueryUnescape": true,
	"time.Now": true, "time.Time.String": true, "time.Time.Format": true, "time.Time.UTC": true,
	"reflect.TypeOf": true, "reflect.ValueOf": true,
}

func stdlibEffects(f *ssa.Function) stdEffect {
	n := extName(f)
	if pureOpaque[n] {
		return allocOnly
	}
	switch n {
	case "strings.HasPrefix", "strings.HasSuffix", "strings.Contains", "strings.Index", "strings.Split", "strings.SplitN",
		"strconv.Atoi", "strconv.ParseUint", "strconv.ParseInt", "strconv.ParseBool",
		"time.Time.Equal", "time.Time.Before", "time.Time.After", "time.Time.IsZero", "bytes.Compare", "bytes.Equal", "reflect.DeepEqual",
		"json.Marshal", "json.MarshalIndent", "url.Parse", "url.URL.Query", "url.ParseQuery":
		return allocOnly
	case "sort.Strings":
		return func(vc *VC, x *ssa.Call, ms *ModSet) {
			ms.heaps[vc.u.heapKey(tString)], ms.oldH[vc.u.heapKey(tString)] = true, true
		}
	case "sort.Sort", "sort.Stable":
		return func(vc *VC, x *ssa.Call, ms *ModSet) {
			if mi, ok := x.Call.Args[0].(*ssa.MakeInterface); ok {
				if stt, ok := types.Unalias(mi.X.Type()).Underlying().(*types.Struct); ok {
					for i := 0; i < stt.NumFields(); i++ {
						if et := sliceElem(stt.Field(i).Type()); et != nil && stt.Field(i).Name() == "col" {
							k := vc.u.heapKey(et)
							ms.heaps[k], ms.oldH[k] = true, true
							ms.alloc = true
							return
						}
					}
				}
			}
			ms.all = true
		}
	case "sort.Slice", "sort.SliceStable":
		return func(vc *VC, x *ssa.Call, ms *ModSet) {
			// the slice is passed as interface: find the MakeInterface operand
			if mi, ok := x.Call.Args[0].(*ssa.MakeInterface); ok {
				if et := sliceElem(mi.X.Type()); et != nil {
					ms.heaps[vc.u.heapKey(et)], ms.oldH[vc.u.heapKey(et)] = true, true
					return
				}
			}
			ms.all = true
		}
	case "json.Unmarshal":
		return func(vc *VC, x *ssa.Call, ms *ModSet) {
			ms.alloc = true
			if mi, ok := x.Call.Args[1].(*ssa.MakeInterface); ok {
				if el := deref(mi.X.Type()); el != nil {
					root := rootOfAddr(mi.X)
					if a, ok := root.(*ssa.Alloc); ok && !a.Heap {
						ms.cells[a] = true
					} else {
						k := vc.u.heapKey(deref(root.Type()))
						ms.heaps[k] = true
						// a target allocated inside the region is fresh memory; any
						// other target existed before and is overwritten
						if a, ok := root.(*ssa.Alloc); !(ok && a.Heap && ms.region != nil && ms.region(a.Block())) {
							ms.oldH[k] = true
						}
					}
					seen := map[string]bool{}
					sub := newModSet()
					vc.reachableKeys(el, sub, seen)
					// freshly decoded data is newly allocated: existing objects reachable from
					// the target are not written, only the target itself
					_ = sub
					return
				}
			}
			ms.all = true
		}
	}
	return nil
}

func stdlibHandler(f *ssa.Function) stdHandler {
	n := extName(f)
	if n == "fmt.Sprintf" {
		return func(vc *VC, fr *Frame, st *State, x *ssa.Call, args []*Val) *Val {
			// fmt.Sprintf("%T", v): the name of v's dynamic type (assumed table)
			if c, ok := x.Call.Args[0].(*ssa.Const); ok && c.Value != nil && c.Value.ExactString() == "\"%T\"" {
				if v := vc.singleVariadicArg(fr, st, x); v != nil {
					vc.typeNameAxioms()
					vc.assumed["fmt.Sprintf(\"%T\", v) returns the Go name of v's dynamic type (table over the dynamic types occurring in the package)"] = true
					return &Val{T: tString, S: "(type_name (atag " + v.S + "))"}
				}
			}
			return vc.opaqueResult(st, n, x, args)
		}
	}
	if pureOpaque[n] {
		return func(vc *VC, fr *Frame, st *State, x *ssa.Call, args []*Val) *Val {
			return vc.opaqueResult(st, n, x, args)
		}
	}
	switch n {
	case "strings.HasPrefix":
		return func(vc *VC, fr *Frame, st *State, x *ssa.Call, args []*Val) *Val {
			return &Val{T: tBool, S: "(str.prefixof " + args[1].S + " " + args[0].S + ")"}
		}
	case "strings.HasSuffix":
		return func(vc *VC, fr *Frame, st *State, x *ssa.Call, args []*Val) *Val {
			return &Val{T: tBool, S: "(str.suffixof " + args[1].S + " " + args[0].S + ")"}
		}
	case "strings.Contains":
		return func(vc *VC, fr *Frame, st *State, x *ssa.Call, args []*Val) *Val {
			return &Val{T: tBool, S: "(str.contains " + args[0].S + " " + args[1].S + ")"}
		}
	case "time.Time.Equal":
		return func(vc *VC, fr *Frame, st *State, x *ssa.Call, args []*Val) *Val {
			return &Val{T: tBool, S: "(= (tinst " + args[0].S + ") (tinst " + args[1].S + "))"}
		}
	case "time.Time.Before":
		return func(vc *VC, fr *Frame, st *State, x *ssa.Call, args []*Val) *Val {
			return &Val{T: tBool, S: "(< (tinst " + args[0].S + ") (tinst " + args[1].S + "))"}
		}
	case "time.Time.After":
		return func(vc *VC, fr *Frame, st *State, x *ssa.Call, args []*Val) *Val {
			return &Val{T: tBool, S: "(> (tinst " + args[0].S + ") (tinst " + args[1].S + "))"}
		}
	case "strconv.Atoi":
		return func(vc *VC, fr *Frame, st *State, x *ssa.Call, args []*Val) *Val {
			vc.u.declareUninterp("isint", []string{"String"}, "Bool")
			vc.u.declareUninterp("litval", []string{"String"}, "Int")
			s := args[0].S
			r := vc.fresh("atoi", "Int")
			e := vc.freshError(st, false)
			vc.assume(inRange(r, tInt))
			vc.assume(fmt.Sprintf("(= (= (atag %s) 0) (and (isint %s) %s))", e.S, s, inRange("(litval "+s+")", tInt)))
			vc.assume(fmt.Sprintf("(=> (= (atag %s) 0) (= %s (litval %s)))", e.S, r, s))
			vc.assume(fmt.Sprintf("(=> (not (= (atag %s) 0)) (or (= %s 0) (= %s 9223372036854775807) (= %s (- 9223372036854775808))))", e.S, r, r, r))
			return &Val{T: x.Type(), Tup: []*Val{{T: tInt, S: r}, e}}
		}
	case "strconv.ParseUint", "strconv.ParseInt":
		signed := n == "strconv.ParseInt"
		return func(vc *VC, fr *Frame, st *State, x *ssa.Call, args []*Val) *Val {
			vc.u.declareUninterp("isint", []string{"String"}, "Bool")
			vc.u.declareUninterp("litval", []string{"String"}, "Int")
			vc.u.declareUninterp("hassign", []string{"String"}, "Bool")
			s := args[0].S
			rt := x.Type().(*types.Tuple).At(0).Type()
			r := vc.fresh("parse", "Int")
			e := vc.freshError(st, false)
			vc.assume(inRange(r, rt))
			base, bits := args[1].S, args[2].S
			if base != "10" {
				// other bases: nothing known
				return &Val{T: x.Type(), Tup: []*Val{{T: rt, S: r}, e}}
			}
			var lo, hi string
			switch bits {
			case "8", "16", "32", "64":
				b := map[string]int{"8": 8, "16": 16, "32": 32, "64": 64}[bits]
				if signed {
					lo, hi = "(- "+pow2(b-1)+")", "(- "+pow2(b-1)+" 1)"
				} else {
					lo, hi = "0", "(- "+pow2(b)+" 1)"
				}
			case "0":
				if signed {
					lo, hi = "(- "+pow2(63)+")", "(- "+pow2(63)+" 1)"
				} else {
					lo, hi = "0", "(- "+pow2(64)+" 1)"
				}
			default:
				return &Val{T: x.Type(), Tup: []*Val{{T: rt, S: r}, e}}
			}
			lv := "(litval " + s + ")"
			okc := fmt.Sprintf("(and (isint %s) (<= %s %s) (<= %s %s))", s, lo, lv, lv, hi)
			if !signed {
				okc = fmt.Sprintf("(and (isint %s) (not (hassign %s)) (<= %s %s) (<= %s %s))", s, s, lo, lv, lv, hi)
			}
			vc.assume(fmt.Sprintf("(= (= (atag %s) 0) %s)", e.S, okc))
			vc.assume(fmt.Sprintf("(=> (= (atag %s) 0) (= %s %s))", e.S, r, lv))
			vc.assume(fmt.Sprintf("(=> (not (= (atag %s) 0)) (or (= %s 0) (= %s %s) (= %s %s)))", e.S, r, r, hi, r, lo))
			return &Val{T: x.Type(), Tup: []*Val{{T: rt, S: r}, e}}
		}
	case "json.Unmarshal":
		return jsonUnmarshal
	case "sort.Slice", "sort.SliceStable":
		return sortSlice
	case "sort.Sort", "sort.Stable":
		return sortSort
	case "sort.Strings":
		return func(vc *VC, fr *Frame, st *State, x *ssa.Call, args []*Val) *Val {
			// in place; multiset preserved; sorted
			s := args[0].S
			key, h := vc.heap(st, tString)
			nh := vc.fresh("H_"+key, "(Array Int String)")
			lo, hi := "(sptr "+s+")", "(+ (sptr "+s+") (slen "+s+"))"
			vc.assume(fmt.Sprintf("(forall ((a Int)) (! (=> (not (and (<= %s a) (< a %s))) (= (select %s a) (select %s a))) :pattern ((select %s a))))", lo, hi, nh, h, nh))
			vc.assume(fmt.Sprintf("(forall ((a Int) (b Int)) (! (=> (and (<= %s a) (<= a b) (< b %s)) (str.<= (select %s a) (select %s b))) :pattern ((select %s a) (select %s b))))", lo, hi, nh, nh, nh, nh))
			// permutation: same multiset, via a ghost bijection
			vc.u.declareUninterp("perm_"+key, []string{"Int", "Int"}, "Int")
			pid := vc.fresh("permid", "Int")
			vc.assume(fmt.Sprintf("(forall ((a Int)) (! (=> (and (<= %s a) (< a %s)) (and (<= %s (perm_%s %s a)) (< (perm_%s %s a) %s) (= (select %s a) (select %s (perm_%s %s a))))) :pattern ((select %s a))))", lo, hi, lo, key, pid, key, pid, hi, nh, h, key, pid, nh))
			vc.u.declareUninterp("permi_"+key, []string{"Int", "Int"}, "Int")
			vc.assume(fmt.Sprintf("(forall ((a Int)) (! (=> (and (<= %s a) (< a %s)) (and (<= %s (permi_%s %s a)) (< (permi_%s %s a) %s) (= (select %s a) (select %s (permi_%s %s a))))) :pattern ((select %s a))))", lo, hi, lo, key, pid, key, pid, hi, h, nh, key, pid, h))
			st.heaps[key] = nh
			return &Val{T: x.Type()}
		}
	}
	return nil
}

// opaqueResult: a pure external function modelled as an uninterpreted function
// of its SMT-level arguments (variadic/any arguments make the result merely
// unconstrained).
func (vc *VC) opaqueResult(st *State, name string, x *ssa.Call, args []*Val) *Val {
	rt := x.Type()
	mk := func(t types.Type, i int) *Val {
		if t.String() == "error" {
			nonNil := name == "fmt.Errorf" || name == "errors.New"
			return vc.freshError(st, nonNil)
		}
		simple := true
		var sorts, terms []string
		for _, a := range args {
			if a.S == "" || sliceElem(a.T) != nil {
				simple = false
				break
			}
			sorts = append(sorts, vc.sortOfVal(a))
			terms = append(terms, a.S)
		}
		if simple && len(args) > 0 && !strings.HasPrefix(name, "time.Now") {
			fnm := fmt.Sprintf("ext_%s_%d", mangle(name), i)
			// one symbol per distinct signature
			fnm += "_" + mangle(strings.Join(sorts, "_"))
			vc.u.declareUninterp(fnm, sorts, vc.u.sortOf(t))
			v := &Val{T: t, S: "(" + fnm + " " + strings.Join(terms, " ") + ")"}
			return v
		}
		return vc.havocVal(t, "ext")
	}
	if tup, ok := rt.(*types.Tuple); ok {
		if tup.Len() == 0 {
			return &Val{T: rt}
		}
		v := &Val{T: rt}
		for i := 0; i < tup.Len(); i++ {
			v.Tup = append(v.Tup, mk(tup.At(i).Type(), i))
		}
		return v
	}
	return mk(rt, 0)
}

// jsonUnmarshal is the assumed contract of encoding/json.Unmarshal(data, &target).
//
// string / time.Time / []byte targets get the codec view (null is a no-op for
// strings and times and sets a slice to nil; otherwise success iff the text is a
// JSON string / RFC 3339 time / base64 string, with the decoded value given by an
// uninterpreted function of the text). Every other target gets the
// over-approximation: an error, or an arbitrary well-formed value of the
// target's Go type made of freshly allocated objects.
func jsonUnmarshal(vc *VC, fr *Frame, st *State, x *ssa.Call, args []*Val) *Val {
	u := vc.u
	errT := types.Universe.Lookup("error").Type()
	var ptrVal *Val
	var tt types.Type
	switch a := x.Call.Args[1].(type) {
	case *ssa.MakeInterface:
		tt = deref(a.X.Type())
		ptrVal = vc.val(fr, st, a.X)
	}
	if tt == nil || ptrVal == nil {
		vc.unsupported(st, "json.Unmarshal-target", vc.pos(x.Pos()))
		return vc.freshError(st, false)
	}
	p := vc.asPtr(ptrVal)
	if p.Cell == nil && len(p.Path) == 0 {
		// a nil target makes Unmarshal return an error, not panic
	}
	_, hb := vc.heap(st, byteT)
	u.declareUninterp("bytes2str", []string{"(Array Int Int)", "Slice"}, "String")
	d := vc.define("jtext", "String", "(bytes2str "+hb+" "+args[0].S+")")
	vc.assume("(= (str.len " + d + ") (slen " + args[0].S + "))")
	u.declareUninterp("jsonNull", []string{"String"}, "Bool")
	vc.jsonAxioms()
	e := vc.freshError(st, false)
	okc := "(= (atag " + e.S + ") 0)"
	old := vc.load(fr, st, p, x.Pos())
	switch {
	case isStringT(tt):
		u.declareUninterp("isJSONString", []string{"String"}, "Bool")
		u.declareUninterp("jsonStringVal", []string{"String"}, "String")
		vc.assume(fmt.Sprintf("(= %s (or (jsonNull %s) (isJSONString %s)))", okc, d, d))
		nv := vc.define("jstr", "String", ite("(and "+okc+" (isJSONString "+d+"))", "(jsonStringVal "+d+")", old.S))
		vc.store(fr, st, p, &Val{T: tt, S: nv}, x.Pos())
	case isTime(tt):
		u.declareUninterp("isJSONTime", []string{"String"}, "Bool")
		u.declareUninterp("jsonTimeVal", []string{"String"}, "Time")
		vc.assume(fmt.Sprintf("(= %s (or (jsonNull %s) (isJSONTime %s)))", okc, d, d))
		nv := vc.define("jtime", "Time", ite("(and "+okc+" (isJSONTime "+d+"))", "(jsonTimeVal "+d+")", old.S))
		vc.store(fr, st, p, &Val{T: tt, S: nv}, x.Pos())
	case isByteSlice(tt):
		u.declareUninterp("isJSONBase64", []string{"String"}, "Bool")
		u.declareUninterp("jsonBytesVal", []string{"String"}, "String")
		vc.assume(fmt.Sprintf("(= %s (or (jsonNull %s) (isJSONBase64 %s)))", okc, d, d))
		// decoded bytes: a fresh slice whose content is the decoded text
		n := vc.fresh("blen", "Int")
		vc.assume("(>= " + n + " 0)")
		fresh := vc.makeSlice(st, tt, byteT, n, n)
		_, hb2 := vc.heap(st, byteT)
		vc.assume(implies("(and "+okc+" (isJSONBase64 "+d+"))", "(= (bytes2str "+hb2+" "+fresh.S+") (jsonBytesVal "+d+"))"))
		arb := vc.havocVal(tt, "jbytes")
		vc.assumeRefsBelow(st, arb.S, tt)
		nv := vc.define("jb", "Slice", ite(okc, ite("(jsonNull "+d+")", "nil_slice", fresh.S), arb.S))
		vc.store(fr, st, p, &Val{T: tt, S: nv}, x.Pos())
	default:
		// over-approximation: on success the target holds an arbitrary well-formed
		// value; on failure it may have been partially filled (arbitrary as well).
		// Everything reachable from the new value is freshly allocated or nil, which
		// the frame of the caller observes through the allocation counter.
		before := st.alloc
		ms := newModSet()
		seen := map[string]bool{}
		vc.reachableKeys(tt, ms, seen)
		ms.all = false
		ms.alloc = true
		// the decoded value lives in new memory: existing objects keep their value
		vc.havocFresh(fr, st, ms, before)
		nv := vc.havocVal(tt, "jval")
		vc.assumeRefsBelow(st, nv.S, tt)
		vc.store(fr, st, p, nv, x.Pos())
		vc.jsonShapeFacts(st, nv, old, tt, okc, d)
	}
	_ = errT
	return e
}

// jsonAxioms: facts about JSON syntax shared by every use.
func (vc *VC) jsonAxioms() {
	if vc.jsonAx {
		return
	}
	vc.jsonAx = true
	u := vc.u
	u.declareUninterp("isint", []string{"String"}, "Bool")
	u.declareUninterp("litval", []string{"String"}, "Int")
	u.declareUninterp("isJSONString", []string{"String"}, "Bool")
	u.declareUninterp("isJSONTime", []string{"String"}, "Bool")
	u.declareUninterp("isJSONBase64", []string{"String"}, "Bool")
	// payload fragments handed to the decoders are whitespace-trimmed JSON values
	// (json.RawMessage never includes surrounding whitespace): null is exactly "null"
	vc.assume("(forall ((s String)) (! (= (jsonNull s) (= s \"null\")) :pattern ((jsonNull s))))")
	vc.assume("(forall ((s String)) (! (=> (jsonNull s) (and (not (isint s)) (not (isJSONString s)) (not (isJSONTime s)) (not (isJSONBase64 s)) (not (= s \"true\")) (not (= s \"false\")))) :pattern ((jsonNull s))))")
	// times and base64 byte strings are JSON strings
	vc.assume("(forall ((s String)) (! (=> (isJSONTime s) (isJSONString s)) :pattern ((isJSONTime s))))")
	vc.assume("(forall ((s String)) (! (=> (isJSONBase64 s) (isJSONString s)) :pattern ((isJSONBase64 s))))")
	vc.assume("(forall ((s String)) (! (=> (isJSONString s) (not (isint s))) :pattern ((isJSONString s))))")
	vc.assumed["json-syntax axioms: null is exactly the text \"null\" (fragments are whitespace-trimmed RawMessages); null, integer literals, strings, times and base64 strings are distinct JSON texts"] = true
}

// havocFresh: like havoc, but every heap/map keeps its content below `before`
// (only new objects appear).
func (vc *VC) havocFresh(fr *Frame, st *State, ms *ModSet, before string) {
	na := vc.fresh("alloc", "Int")
	vc.assume("(>= " + na + " " + st.alloc + ")")
	st.alloc = na
	for _, k := range sortedKeys(ms.heaps) {
		t := vc.u.heapKeys[k]
		_, h := vc.heap(st, t)
		nh := vc.fresh("H_"+k, "(Array Int "+vc.u.sortOf(t)+")")
		vc.assume(fmt.Sprintf("(forall ((a Int)) (! (=> (< a %s) (= (select %s a) (select %s a))) :pattern ((select %s a))))", before, nh, h, nh))
		vc.assume(vc.refsBelowAxiom(nh, t, st.alloc))
		vc.bytesFrame(k, h, nh, before)
		st.heaps[k] = nh
	}
	for _, k := range sortedKeys(ms.maps) {
		mt := vc.u.mapKeys[k]
		_, dom, val, card := vc.mapArrays(st, mt)
		ks, vs := vc.u.sortOf(mt.Key()), vc.u.sortOf(mt.Elem())
		nd := vc.fresh("MD_"+k, "(Array Int (Array "+ks+" Bool))")
		nv := vc.fresh("MV_"+k, "(Array Int (Array "+ks+" "+vs+"))")
		nc := vc.fresh("MC_"+k, "(Array Int Int)")
		for _, pr := range [][2]string{{nd, dom}, {nv, val}, {nc, card}} {
			vc.assume(fmt.Sprintf("(forall ((m Int)) (! (=> (< m %s) (= (select %s m) (select %s m))) :pattern ((select %s m))))", before, pr[0], pr[1], pr[0]))
		}
		vc.assume(fmt.Sprintf("(forall ((m Int)) (! (>= (select %s m) 0) :pattern ((select %s m))))", nc, nc))
		vc.assume(vc.mapRefsBelowAxiom(nv, mt, st.alloc))
		st.mdom[k], st.mval[k], st.mcard[k] = nd, nv, nc
	}
}

// jsonShapeFacts: what encoding/json guarantees about decoded skeletons
// (filled in where the unmarshaling contracts need it).
func (vc *VC) jsonShapeFacts(st *State, v, old *Val, t types.Type, okc, text string) {
	u := vc.u
	named, _ := types.Unalias(t).(*types.Named)
	name := ""
	if named != nil {
		name = named.Obj().Name()
	}
	_, hb := vc.heap(st, byteT)
	str := func(sl string) string { return "(bytes2str " + hb + " " + sl + ")" }
	rawOK := func(sl string) string { // a decoded RawMessage is a non-empty JSON text
		return "(> (slen " + sl + ") 0)"
	}
	switch {
	case name == "resourceSkeleton":
		// JSON-structure axiom: the decoded skeleton exposes exactly the members of
		// the payload object; these observation functions depend on the text only
		u.declareUninterp("jsonOK_resource", []string{"String"}, "Bool")
		u.declareUninterp("rsk_id", []string{"String"}, "String")
		u.declareUninterp("rsk_type", []string{"String"}, "String")
		u.declareUninterp("rsk_hasAttr", []string{"String", "String"}, "Bool")
		u.declareUninterp("rsk_attrText", []string{"String", "String"}, "String")
		u.declareUninterp("rsk_hasRel", []string{"String", "String"}, "Bool")
		u.declareUninterp("rsk_relData", []string{"String", "String"}, "String")
		si := u.structOf(t)
		f := func(n string) string {
			for i := 0; i < si.st.NumFields(); i++ {
				if si.st.Field(i).Name() == n {
					return "(" + si.fields[i] + " " + v.S + ")"
				}
			}
			return ""
		}
		vc.assume(fmt.Sprintf("(= %s (jsonOK_resource %s))", okc, text))
		vc.assume(implies(okc, fmt.Sprintf("(and (= %s (rsk_id %s)) (= %s (rsk_type %s)))", f("ID"), text, f("Type"), text)))
		// attributes
		amt := types.NewMap(tString, types.NewSlice(byteT))
		_, ad, av, _ := vc.mapArrays(st, amt)
		am := f("Attributes")
		vc.assume(implies(okc, fmt.Sprintf("(forall ((k String)) (! (= (and (not (= %s 0)) (select (select %s %s) k)) (rsk_hasAttr %s k)) :pattern ((select (select %s %s) k)) :pattern ((rsk_hasAttr %s k))))", am, ad, am, text, ad, am, text)))
		vc.assume(implies(okc, fmt.Sprintf("(forall ((k String)) (! (=> (rsk_hasAttr %s k) (and %s (= %s (rsk_attrText %s k)))) :pattern ((select (select %s %s) k))))", text, rawOK("(select (select "+av+" "+am+") k)"), str("(select (select "+av+" "+am+") k)"), text, av, am)))
		// relationships
		for i := 0; i < si.st.NumFields(); i++ {
			if si.st.Field(i).Name() != "Relationships" {
				continue
			}
			rmt := types.Unalias(si.st.Field(i).Type()).Underlying().(*types.Map)
			_, rd, rv, _ := vc.mapArrays(st, rmt)
			rm := f("Relationships")
			rsi := u.structOf(rmt.Elem())
			data := "(" + rsi.fields[0] + " (select (select " + rv + " " + rm + ") k))"
			vc.assume(implies(okc, fmt.Sprintf("(forall ((k String)) (! (= (and (not (= %s 0)) (select (select %s %s) k)) (rsk_hasRel %s k)) :pattern ((select (select %s %s) k)) :pattern ((rsk_hasRel %s k))))", rm, rd, rm, text, rd, rm, text)))
			vc.assume(implies(okc, fmt.Sprintf("(forall ((k String)) (! (=> (rsk_hasRel %s k) (= %s (rsk_relData %s k))) :pattern ((select (select %s %s) k))))", text, str(data), text, rv, rm)))
		}
		vc.assumed["json structure axiom: the decoded resourceSkeleton exposes exactly the members of the payload object (rsk_* observation functions of the text)"] = true
	case name == "Identifier":
		// a struct target keeps the fields whose members are absent from the
		// text (null has no members): ident_id/ident_type are the values decoded
		// into a zero Identifier
		u.declareUninterp("isIdentJSON", []string{"String"}, "Bool")
		u.declareUninterp("ident_id", []string{"String"}, "String")
		u.declareUninterp("ident_type", []string{"String"}, "String")
		u.declareUninterp("ident_hasID", []string{"String"}, "Bool")
		u.declareUninterp("ident_hasType", []string{"String"}, "Bool")
		si := u.structOf(t)
		vc.assume(fmt.Sprintf("(= %s (isIdentJSON %s))", okc, text))
		vc.assume(implies(okc, fmt.Sprintf("(and (= (%s %s) (ite (ident_hasID %s) (ident_id %s) (%s %s))) (= (%s %s) (ite (ident_hasType %s) (ident_type %s) (%s %s))))",
			si.fields[0], v.S, text, text, si.fields[0], old.S, si.fields[1], v.S, text, text, si.fields[1], old.S)))
		if !vc.identAx {
			vc.identAx = true
			vc.assume("(forall ((s String)) (! (=> (jsonNull s) (and (isIdentJSON s) (not (ident_hasID s)) (not (ident_hasType s)))) :pattern ((jsonNull s))))")
			vc.assume("(forall ((s String)) (! (=> (not (ident_hasID s)) (= (ident_id s) \"\")) :pattern ((ident_id s))))")
			vc.assume("(forall ((s String)) (! (=> (not (ident_hasType s)) (= (ident_type s) \"\")) :pattern ((ident_type s))))")
		}
	case name == "Identifiers":
		// decoding into a nil slice: the elements are new zero values filled from
		// the text; a non-nil target reuses its elements (nothing is said then)
		u.declareUninterp("isIdentsJSON", []string{"String"}, "Bool")
		u.declareUninterp("idents_len", []string{"String"}, "Int")
		u.declareUninterp("idents_id", []string{"String", "Int"}, "String")
		vc.assume(fmt.Sprintf("(= %s (isIdentsJSON %s))", okc, text))
		et := sliceElem(t)
		_, he := vc.heap(st, et)
		esi := u.structOf(et)
		wasNil := "(= " + old.S + " nil_slice)"
		vc.assume(implies(okc, fmt.Sprintf("(and (= (slen %s) (idents_len %s)) (>= (idents_len %s) 0))", v.S, text, text)))
		vc.assume(implies(and(okc, wasNil), fmt.Sprintf("(forall ((i Int)) (! (=> (and (<= 0 i) (< i (slen %s))) (= (%s (select %s (idx (sptr %s) i))) (idents_id %s i))) :pattern ((select %s (idx (sptr %s) i)))))", v.S, esi.fields[0], he, v.S, text, he, v.S)))
		if !vc.identsAx {
			vc.identsAx = true
			vc.assume("(forall ((s String)) (! (=> (jsonNull s) (and (isIdentsJSON s) (= (idents_len s) 0))) :pattern ((jsonNull s))))")
		}
	default:
		// slices of raw messages: every element is a non-empty JSON text;
		// slices of *RawMessage may hold nil (JSON null)
		if et := sliceElem(t); et != nil && isByteSlice(et) {
			_, he := vc.heap(st, et)
			vc.assume(implies(okc, fmt.Sprintf("(forall ((a Int)) (! (=> (and (<= (sptr %s) a) (< a (+ (sptr %s) (slen %s)))) %s) :pattern ((select %s a))))", v.S, v.S, v.S, rawOK("(select "+he+" a)"), he)))
		}
	}
}

// sortSlice: assumed contract of sort.Slice(x, less): x is permuted in place
// (same elements as a set, nothing outside x changes) and afterwards no later
// element is less than an earlier one, where "less" is the contract clause
// named less (result == E) of the closure passed in.
func sortSlice(vc *VC, fr *Frame, st *State, x *ssa.Call, args []*Val) *Val {
	mi, ok := x.Call.Args[0].(*ssa.MakeInterface)
	var et types.Type
	if ok {
		et = sliceElem(mi.X.Type())
	}
	if et == nil {
		vc.unsupported(st, "sort.Slice-operand", vc.pos(x.Pos()))
		return &Val{T: x.Type()}
	}
	sl := vc.val(fr, st, mi.X)
	key, h := vc.heap(st, et)
	es := vc.u.sortOf(vc.u.heapKeys[key])
	nh := vc.fresh("H_"+key, "(Array Int "+es+")")
	lo, hi := "(sptr "+sl.S+")", "(+ (sptr "+sl.S+") (slen "+sl.S+"))"
	in := func(a string) string { return "(and (<= " + lo + " " + a + ") (< " + a + " " + hi + "))" }
	vc.assume(fmt.Sprintf("(forall ((a Int)) (! (=> (not %s) (= (select %s a) (select %s a))) :pattern ((select %s a))))", in("a"), nh, h, nh))
	vc.assume(fmt.Sprintf("(forall ((a Int)) (! (=> %s (exists ((b Int)) (and %s (= (select %s a) (select %s b))))) :pattern ((select %s a))))", in("a"), in("b"), nh, h, nh))
	vc.assume(fmt.Sprintf("(forall ((b Int)) (! (=> %s (exists ((a Int)) (and %s (= (select %s a) (select %s b))))) :pattern ((select %s b))))", in("b"), in("a"), nh, h, h))
	// a ghost bijection witnesses that the result is a permutation
	vc.nfresh++
	pf := fmt.Sprintf("perm!%d", vc.nfresh)
	vc.facts = append(vc.facts, "(declare-fun "+pf+" (Int) Int)")
	vc.assume(fmt.Sprintf("(forall ((a Int)) (! (=> %s (and %s (= (select %s a) (select %s (%s a))))) :pattern ((select %s a)) :pattern ((%s a))))", in("a"), in("("+pf+" a)"), nh, h, pf, nh, pf))
	vc.assume(fmt.Sprintf("(forall ((a Int) (b Int)) (! (=> (and %s %s (not (= a b))) (not (= (%s a) (%s b)))) :pattern ((%s a) (%s b))))", in("a"), in("b"), pf, pf, pf, pf))
	vc.assume(vc.refsBelowAxiom(nh, vc.u.heapKeys[key], st.alloc))
	st.heaps[key] = nh
	// sortedness with respect to the closure's contract
	cl := args[1]
	if cl.Fn != nil {
		if con := vc.eng.contractOf(cl.Fn); con != nil {
			for _, c := range con.Ensures {
				b, ok := c.E.(*SBinary)
				if c.Name != "less" || !ok || b.Op != "==" {
					continue
				}
				if id, ok := b.X.(*SIdent); !ok || id.Name != "result" {
					continue
				}
				ps := cl.Fn.Signature.Params()
				if ps.Len() != 2 {
					continue
				}
				pi, pj := ps.At(0).Name(), ps.At(1).Name()
				// less(b, a) must be false for a < b: substitute i := $b, j := $a
				E := substIdent(substIdent(b.Y, pi, "$tmp_i"), pj, "$tmp_j")
				E = substIdent(substIdent(E, "$tmp_i", "$sb"), "$tmp_j", "$sa")
				body := &SBinary{"==>", &SBinary{"&&", &SBinary{"&&", &SBinary{"<=", &SInt{"0"}, &SIdent{"$sa"}}, &SBinary{"<", &SIdent{"$sa"}, &SIdent{"$sb"}}}, &SBinary{"<", &SIdent{"$sb"}, &SCall{"len", []SExpr{&SIdent{"$sorted"}}}}}, &SUnary{"!", E}}
				q := &SQuant{Forall: true, Vars: []SVar{{"$sa", "int"}, {"$sb", "int"}}, Body: body}
				env := &Env{vc: vc, st: st, old: st, vars: map[string]*Val{"$sorted": sl}}
				for i, fv := range cl.Fn.FreeVars {
					if i < len(cl.Bind) {
						env.vars[fv.Name()] = cl.Bind[i]
					}
				}
				g, err := env.evalBool(q)
				if err != nil {
					vc.oblige(st, "spec-error", "sort.Slice/less", "false", vc.pos(x.Pos()), err.Error())
					continue
				}
				vc.assume(implies(st.reach, g))
				vc.assumed["sort.Slice sorts with respect to the contract clause 'less' of "+fnDisplayName(cl.Fn)] = true
			}
		}
	}
	return &Val{T: x.Type()}
}

func substIdent(x SExpr, from, to string) SExpr {
	switch n := x.(type) {
	case *SIdent:
		if n.Name == from {
			return &SIdent{to}
		}
		return n
	case *sParen:
		return &sParen{substIdent(n.SExpr, from, to)}
	case *SUnary:
		return &SUnary{n.Op, substIdent(n.X, from, to)}
	case *SBinary:
		return &SBinary{n.Op, substIdent(n.X, from, to), substIdent(n.Y, from, to)}
	case *SCall:
		var as []SExpr
		for _, a := range n.Args {
			as = append(as, substIdent(a, from, to))
		}
		return &SCall{n.Fun, as}
	case *SMCall:
		var as []SExpr
		for _, a := range n.Args {
			as = append(as, substIdent(a, from, to))
		}
		return &SMCall{substIdent(n.X, from, to), n.Name, as}
	case *SSel:
		return &SSel{substIdent(n.X, from, to), n.Name}
	case *SIndex:
		return &SIndex{substIdent(n.X, from, to), substIdent(n.I, from, to)}
	case *SSlice:
		var lo, hi SExpr
		if n.Lo != nil {
			lo = substIdent(n.Lo, from, to)
		}
		if n.Hi != nil {
			hi = substIdent(n.Hi, from, to)
		}
		return &SSlice{substIdent(n.X, from, to), lo, hi}
	case *SQuant:
		return &SQuant{n.Forall, n.Vars, substIdent(n.Body, from, to)}
	}
	return x
}

// singleVariadicArg recognises f(fmt, a) compiled as a one-element []any and
// returns the element.
func (vc *VC) singleVariadicArg(fr *Frame, st *State, x *ssa.Call) *Val {
	if len(x.Call.Args) != 2 {
		return nil
	}
	sl, ok := x.Call.Args[1].(*ssa.Slice)
	if !ok {
		return nil
	}
	al, ok := sl.X.(*ssa.Alloc)
	if !ok {
		return nil
	}
	at, ok := types.Unalias(deref(al.Type())).Underlying().(*types.Array)
	if !ok || at.Len() != 1 {
		return nil
	}
	base := vc.val(fr, st, al)
	if base.S == "" {
		return nil
	}
	_, h := vc.heap(st, at.Elem())
	return &Val{T: at.Elem(), S: "(select " + h + " (+ " + base.S + " 0))"}
}

var byteWordRe = regexp.MustCompile(`\bbyte\b`)

// typeNameAxioms: %T names of the dynamic types of the tag table.
func (vc *VC) typeNameAxioms() {
	if vc.tnameAx {
		return
	}
	vc.tnameAx = true
	vc.u.declareUninterp("type_name", []string{"Int"}, "String")
	vc.assume("(= (type_name 0) \"<nil>\")")
	// distinct dynamic types print differently, and no Go type prints as one of the
	// library's own aliases ("time", "bytes", "[]byte": %T prints time.Time and []uint8)
	vc.assume("(forall ((a Int) (b Int)) (! (=> (= (type_name a) (type_name b)) (= a b)) :pattern ((type_name a) (type_name b))))")
	for _, alias := range []string{"time", "bytes", "[]byte", "*time", "*bytes", "*[]byte"} {
		vc.assume(fmt.Sprintf("(forall ((a Int)) (! (not (= (type_name a) %s)) :pattern ((type_name a))))", smtStr(alias)))
	}
	for tg := 1; tg < vc.u.nextTag; tg++ {
		t, ok := vc.u.tagTypes[tg]
		if !ok {
			continue
		}
		name := types.TypeString(t, func(p *types.Package) string { return p.Name() })
		name = strings.ReplaceAll(name, "interface{}", "interface {}")
		name = byteWordRe.ReplaceAllString(name, "uint8")
		vc.assume(fmt.Sprintf("(= (type_name %d) %s)", tg, smtStr(name)))
	}
}

// sortSort: assumed contract of sort.Sort(data) for the package's own
// sort.Interface implementation (sortedResources): the elements of data.col are
// permuted in place (ghost bijection), nothing else changes. That the result is
// ordered with respect to Less is the documented contract of sort.Sort and is
// not restated as a formula here (Less itself is proved against its contract).
func sortSort(vc *VC, fr *Frame, st *State, x *ssa.Call, args []*Val) *Val {
	mi, ok := x.Call.Args[0].(*ssa.MakeInterface)
	if !ok {
		vc.unsupported(st, "sort.Sort-operand", vc.pos(x.Pos()))
		return &Val{T: x.Type()}
	}
	sv := vc.val(fr, st, mi.X)
	stt, ok := types.Unalias(sv.T).Underlying().(*types.Struct)
	if !ok || sv.S == "" {
		vc.unsupported(st, "sort.Sort-operand", vc.pos(x.Pos()))
		return &Val{T: x.Type()}
	}
	si := vc.u.structOf(sv.T)
	for i := 0; i < stt.NumFields(); i++ {
		et := sliceElem(stt.Field(i).Type())
		if stt.Field(i).Name() != "col" || et == nil {
			continue
		}
		sl := "(" + si.fields[i] + " " + sv.S + ")"
		key, h := vc.heap(st, et)
		es := vc.u.sortOf(vc.u.heapKeys[key])
		nh := vc.fresh("H_"+key, "(Array Int "+es+")")
		lo, hi := "(sptr "+sl+")", "(+ (sptr "+sl+") (slen "+sl+"))"
		in := func(a string) string { return "(and (<= " + lo + " " + a + ") (< " + a + " " + hi + "))" }
		vc.assume(fmt.Sprintf("(forall ((a Int)) (! (=> (not %s) (= (select %s a) (select %s a))) :pattern ((select %s a))))", in("a"), nh, h, nh))
		vc.nfresh++
		pf := fmt.Sprintf("perm!%d", vc.nfresh)
		vc.facts = append(vc.facts, "(declare-fun "+pf+" (Int) Int)")
		vc.assume(fmt.Sprintf("(forall ((a Int)) (! (=> %s (and %s (= (select %s a) (select %s (%s a))))) :pattern ((select %s a)) :pattern ((%s a))))", in("a"), in("("+pf+" a)"), nh, h, pf, nh, pf))
		vc.assume(fmt.Sprintf("(forall ((a Int) (b Int)) (! (=> (and %s %s (not (= a b))) (not (= (%s a) (%s b)))) :pattern ((%s a) (%s b))))", in("a"), in("b"), pf, pf, pf, pf))
		vc.assume(vc.refsBelowAxiom(nh, vc.u.heapKeys[key], st.alloc))
		vc.assume(vc.elemWfAxiom(nh, vc.u.heapKeys[key]))
		st.heaps[key] = nh
		vc.assumed["sort.Sort permutes the elements of the collection in place (and orders them by Less)"] = true
		return &Val{T: x.Type()}
	}
	vc.unsupported(st, "sort.Sort-operand", vc.pos(x.Pos()))
	return &Val{T: x.Type()}
}
