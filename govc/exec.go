package main

// Symbolic execution of go/ssa (NaiveForm) functions with state merging.

import (
	"fmt"
	"go/constant"
	"go/token"
	"go/types"
	"sort"
	"strings"

	"golang.org/x/tools/go/ssa"
)

type Frame struct {
	inDevirt   bool
	cutArgs    []*Val
	cutHits    map[string]bool // cut point keys that attached to a call site
	cutShift   map[string]int  // cut point key → ordinal it moved on to
	cutTries   map[string]int
	cutResult  *Val
	fn         *ssa.Function
	regs       map[ssa.Value]*Val
	cellOf     map[*ssa.Alloc]*Cell
	params     []*Val
	entry      *State // state at function entry (for old())
	depth      int
	prefix     string // obligation name prefix for inlined frames
	con        *Contract
	results    []*types.Var
	loops      map[*ssa.BasicBlock]*loopInfo
	edgeOut    map[[2]int]*State // (from,to) → state flowing along the edge
	ovfN       int
	idxN       map[string]int
	retVals    [][]*Val
	retSts     []*State
	panics     []*State
	binds      []*Val
	specVars   map[string]*Val
	rangeOf    map[*ssa.Range]*rangeState
	rangeOrd   map[*ssa.Range]int
	allocOrder []*ssa.Alloc
	aliasAlloc map[string]*ssa.Alloc // recorded local names that no longer exist → the local at their position
	perReturn  func(st *State, results []*Val, k int, pos token.Pos)
}

type loopInfo struct {
	head    *ssa.BasicBlock
	blocks  map[*ssa.BasicBlock]bool
	ordinal int
	entry   *State // state just before the first iteration (pre-havoc)
	mods    *ModSet
}

func (vc *VC) pos(p token.Pos) token.Position {
	if vc.eng == nil || !p.IsValid() {
		return token.Position{}
	}
	return vc.eng.fset.Position(p)
}

// ---- control flow helpers -------------------------------------------------

func computeLoops(fn *ssa.Function) map[*ssa.BasicBlock]*loopInfo {
	loops := map[*ssa.BasicBlock]*loopInfo{}
	for _, b := range fn.Blocks {
		for _, s := range b.Succs {
			if s.Dominates(b) { // back edge b → s
				li := loops[s]
				if li == nil {
					li = &loopInfo{head: s, blocks: map[*ssa.BasicBlock]bool{s: true}}
					loops[s] = li
				}
				// natural loop: nodes reaching b without passing s
				var stack []*ssa.BasicBlock
				if !li.blocks[b] {
					li.blocks[b] = true
					stack = append(stack, b)
				}
				for len(stack) > 0 {
					x := stack[len(stack)-1]
					stack = stack[:len(stack)-1]
					for _, p := range x.Preds {
						if !li.blocks[p] {
							li.blocks[p] = true
							stack = append(stack, p)
						}
					}
				}
			}
		}
	}
	var heads []*ssa.BasicBlock
	for h := range loops {
		heads = append(heads, h)
	}
	sort.Slice(heads, func(i, j int) bool { return heads[i].Index < heads[j].Index })
	for i, h := range heads {
		loops[h].ordinal = i
	}
	return loops
}

func isBackEdge(from, to *ssa.BasicBlock) bool { return to.Dominates(from) }

func rpo(fn *ssa.Function) []*ssa.BasicBlock {
	loops := computeLoops(fn)
	// innermost loop of a block = the smallest natural loop containing it
	inner := func(b *ssa.BasicBlock) *loopInfo {
		var best *loopInfo
		for _, l := range loops {
			if l.blocks[b] && (best == nil || len(l.blocks) < len(best.blocks)) {
				best = l
			}
		}
		return best
	}
	seen := map[*ssa.BasicBlock]bool{}
	var post []*ssa.BasicBlock
	var dfs func(b *ssa.BasicBlock)
	dfs = func(b *ssa.BasicBlock) {
		seen[b] = true
		// visit loop exits first so that, in reverse postorder, a loop's body
		// precedes the code after the loop (facts of the continuation do not
		// clutter the obligations of the body)
		succs := append([]*ssa.BasicBlock{}, b.Succs...)
		if l := inner(b); l != nil {
			sort.SliceStable(succs, func(i, j int) bool { return !l.blocks[succs[i]] && l.blocks[succs[j]] })
		}
		for _, s := range succs {
			if !seen[s] && !isBackEdge(b, s) {
				dfs(s)
			}
		}
		post = append(post, b)
	}
	if len(fn.Blocks) > 0 {
		dfs(fn.Blocks[0])
	}
	for i, j := 0, len(post)-1; i < j; i, j = i+1, j-1 {
		post[i], post[j] = post[j], post[i]
	}
	return post
}

// ---- executing a function body ----------------------------------------------

// execBody runs fn from state st with the frame's parameters bound and returns
// the merged state at its returns together with the merged results.
func (vc *VC) execBody(fr *Frame, st *State) (*State, []*Val) {
	fn := fr.fn
	fr.regs = map[ssa.Value]*Val{}
	fr.cellOf = map[*ssa.Alloc]*Cell{}
	fr.loops = computeLoops(fn)
	fr.edgeOut = map[[2]int]*State{}
	fr.idxN = map[string]int{}
	for i, p := range fn.Params {
		fr.regs[p] = fr.params[i]
	}
	for i, fv := range fn.FreeVars {
		if i < len(fr.bindings()) {
			fr.regs[fv] = fr.bindings()[i]
		}
	}
	order := rpo(fn)
	if fr.depth == 0 {
		// forward ancestors of every block (back edges cut)
		vc.anc = map[int]map[int]bool{}
		for _, b := range order {
			a := map[int]bool{b.Index: true}
			for _, p := range b.Preds {
				if isBackEdge(p, b) {
					continue
				}
				for k := range vc.anc[p.Index] {
					a[k] = true
				}
			}
			vc.anc[b.Index] = a
		}
	}
	for _, b := range order {
		if fr.depth == 0 {
			vc.enterBlk(b.Index)
		}
		var ins []*State
		if b.Index == 0 {
			ins = append(ins, st)
		}
		for _, p := range b.Preds {
			if isBackEdge(p, b) {
				continue
			}
			if s, ok := fr.edgeOut[[2]int{p.Index, b.Index}]; ok {
				ins = append(ins, s)
			}
		}
		if len(ins) == 0 {
			continue
		}
		cur := vc.mergeStates(ins, fmt.Sprintf("b%d", b.Index))
		if li := fr.loops[b]; li != nil {
			cur = vc.enterLoop(fr, li, cur)
		}
		vc.execBlock(fr, b, cur, ins)
	}
	if fr.depth == 0 {
		// the merged exit: reached from the returning blocks
		a := map[int]bool{-2: true}
		for _, b := range order {
			if len(b.Instrs) > 0 {
				if _, ok := b.Instrs[len(b.Instrs)-1].(*ssa.Return); ok {
					for k := range vc.anc[b.Index] {
						a[k] = true
					}
				}
			}
		}
		vc.anc[-2] = a
		vc.enterBlk(-2)
	}
	if len(fr.retSts) == 0 {
		return nil, nil
	}
	exit := vc.mergeStates(fr.retSts, "exit")
	var results []*Val
	if len(fr.retVals) > 0 {
		n := len(fr.retVals[0])
		conds := make([]string, len(fr.retSts))
		for i, s := range fr.retSts {
			conds[i] = s.reach
		}
		for k := 0; k < n; k++ {
			vals := make([]*Val, len(fr.retVals))
			for i := range fr.retVals {
				vals[i] = fr.retVals[i][k]
			}
			m, ok := vc.mergeVals(conds, vals, "ret")
			if !ok {
				vc.unsupported(exit, "merge-result", vc.pos(fn.Pos()))
				m = vc.havocVal(vals[0].T, "ret")
			}
			results = append(results, m)
		}
	}
	return exit, results
}

func (fr *Frame) bindings() []*Val {
	return fr.binds
}

func (vc *VC) execBlock(fr *Frame, b *ssa.BasicBlock, st *State, ins []*State) {
	for _, in := range b.Instrs {
		switch x := in.(type) {
		case *ssa.If:
			c := vc.val(fr, st, x.Cond)
			t, f := st.clone(), st.clone()
			t.reach = vc.define("rc", "Bool", and(st.reach, c.S))
			f.reach = vc.define("rc", "Bool", and(st.reach, not(c.S)))
			vc.flow(fr, b, b.Succs[0], t)
			vc.flow(fr, b, b.Succs[1], f)
			return
		case *ssa.Jump:
			vc.flow(fr, b, b.Succs[0], st)
			return
		case *ssa.Return:
			var rs []*Val
			for _, r := range x.Results {
				rs = append(rs, vc.val(fr, st, r))
			}
			if fr.perReturn != nil {
				fr.perReturn(st, rs, len(fr.retSts), x.Pos())
			}
			fr.retVals = append(fr.retVals, rs)
			fr.retSts = append(fr.retSts, st)
			return
		case *ssa.Panic:
			vc.explicitPanic(fr, st, x)
			return
		default:
			vc.execInstr(fr, st, in, b, ins)
		}
	}
}

func (vc *VC) flow(fr *Frame, from, to *ssa.BasicBlock, st *State) {
	if isBackEdge(from, to) {
		vc.backEdge(fr, fr.loops[to], st)
		return
	}
	fr.edgeOut[[2]int{from.Index, to.Index}] = st
}

func (vc *VC) explicitPanic(fr *Frame, st *State, x *ssa.Panic) {
	if fr.con != nil && fr.con.Flags["maypanic"] && fr.depth == 0 {
		return
	}
	n := fr.idxN["panic"]
	fr.idxN["panic"] = n + 1
	vc.oblige(st, "nopanic", fmt.Sprintf("%sexplicit#%d", fr.prefix, n), "false", vc.pos(x.Pos()), "panic(...)")
}

// safety obligation with ordinal naming
func (vc *VC) safety(fr *Frame, st *State, kind, goal string, pos token.Pos, src string) {
	if goal == "true" {
		return
	}
	n := fr.idxN[kind]
	fr.idxN[kind] = n + 1
	o := vc.oblige(st, "nopanic", fmt.Sprintf("%s%s#%d", fr.prefix, kind, n), goal, vc.pos(pos), src)
	_ = o
	// after the check, execution continues only if it held
	vc.assume(implies(st.reach, goal))
}

// ---- values -------------------------------------------------------------------

func (vc *VC) constVal(c *ssa.Const) *Val {
	t := c.Type()
	if c.Value == nil {
		return &Val{T: t, S: vc.u.zero(t)}
	}
	switch c.Value.Kind() {
	case constant.Bool:
		if constant.BoolVal(c.Value) {
			return &Val{T: t, S: "true"}
		}
		return &Val{T: t, S: "false"}
	case constant.String:
		return &Val{T: t, S: smtStr(constant.StringVal(c.Value))}
	case constant.Int:
		if vc.u.sortOf(t) == "Real" {
			return &Val{T: t, S: c.Value.ExactString() + ".0"}
		}
		s := c.Value.ExactString()
		if strings.HasPrefix(s, "-") {
			s = "(- " + s[1:] + ")"
		}
		return &Val{T: t, S: s}
	case constant.Float:
		f, _ := constant.Float64Val(c.Value)
		return &Val{T: t, S: fmt.Sprintf("%f", f)}
	}
	return &Val{T: t, S: vc.u.zero(t)}
}

func (vc *VC) val(fr *Frame, st *State, v ssa.Value) *Val {
	switch x := v.(type) {
	case *ssa.Const:
		return vc.constVal(x)
	case *ssa.Function:
		return &Val{T: x.Type(), S: fmt.Sprintf("%d", vc.eng.funcID(x)), Fn: x}
	case *ssa.Global:
		c := vc.eng.globalCell(vc, x)
		return &Val{T: x.Type(), P: &Ptr{Cell: c, Base: c.T}}
	case *ssa.Builtin:
		return &Val{T: x.Type()}
	}
	if r, ok := fr.regs[v]; ok {
		return r
	}
	vc.unsupported(st, "undefined-register:"+v.Name(), vc.pos(v.Pos()))
	r := vc.havocVal(v.Type(), v.Name())
	fr.regs[v] = r
	return r
}

// havocVal returns an unconstrained value of type t (ranges assumed).
func (vc *VC) havocVal(t types.Type, name string) *Val {
	if tup, ok := t.(*types.Tuple); ok {
		v := &Val{T: t}
		for i := 0; i < tup.Len(); i++ {
			v.Tup = append(v.Tup, vc.havocVal(tup.At(i).Type(), name))
		}
		return v
	}
	n := vc.fresh(name, vc.u.sortOf(t))
	vc.assumeWF(n, t)
	return &Val{T: t, S: n}
}

// assumeWF adds the type invariants of a value (integer ranges, slice header
// sanity, non-negative addresses) — facts that hold of every Go value of type t.
func (vc *VC) assumeWF(term string, t types.Type) {
	for _, f := range vc.wfFacts(term, t, 0) {
		vc.assume(f)
	}
}

func (vc *VC) wfFacts(term string, t types.Type, depth int) []string {
	if depth > 3 {
		return nil
	}
	if isTime(t) || opaqueStruct(t) {
		return nil
	}
	switch tt := types.Unalias(t).Underlying().(type) {
	case *types.Basic:
		if _, _, ok := intRange(t); ok {
			return []string{inRange(term, t)}
		}
		if tt.Info()&types.IsString != 0 {
			// a Go string is shorter than 2^62 bytes
			return []string{"(< (str.len " + term + ") 4611686018427387904)"}
		}
	case *types.Pointer, *types.Map, *types.Signature, *types.Chan:
		return []string{"(>= " + term + " 0)"}
	case *types.Slice:
		return []string{fmt.Sprintf("(and (>= (sptr %s) 0) (>= (slen %s) 0) (<= (slen %s) (scap %s)) (<= (scap %s) 9223372036854775807) (=> (= (sptr %s) 0) (= (scap %s) 0)))", term, term, term, term, term, term, term)}
	case *types.Interface:
		return []string{"(wf_any " + term + ")"}
	case *types.Struct:
		si := vc.u.structOf(t)
		var out []string
		if si == nil {
			return nil
		}
		for i := 0; i < tt.NumFields(); i++ {
			out = append(out, vc.wfFacts("("+si.fields[i]+" "+term+")", tt.Field(i).Type(), depth+1)...)
		}
		return out
	}
	return nil
}

// ---- pointers -------------------------------------------------------------------

func deref(t types.Type) types.Type {
	if p, ok := types.Unalias(t).Underlying().(*types.Pointer); ok {
		return p.Elem()
	}
	return nil
}

// asPtr converts a pointer value into an executor-level pointer.
func (vc *VC) asPtr(v *Val) *Ptr {
	if v.P != nil {
		return v.P
	}
	return &Ptr{Ref: v.S, Base: deref(v.T)}
}

func fieldType(t types.Type, path []int) types.Type {
	for _, i := range path {
		st := types.Unalias(t).Underlying().(*types.Struct)
		t = st.Field(i).Type()
	}
	return t
}

func (vc *VC) getPath(term string, t types.Type, path []int) string {
	for _, i := range path {
		si := vc.u.structOf(t)
		term = "(" + si.fields[i] + " " + term + ")"
		t = si.st.Field(i).Type()
	}
	return term
}

func (vc *VC) setPath(term string, t types.Type, path []int, nv string) string {
	if len(path) == 0 {
		return nv
	}
	si := vc.u.structOf(t)
	parts := []string{"(mk_" + si.sort}
	for i := range si.fields {
		if i == path[0] {
			parts = append(parts, vc.setPath("("+si.fields[i]+" "+term+")", si.st.Field(i).Type(), path[1:], nv))
		} else {
			parts = append(parts, "("+si.fields[i]+" "+term+")")
		}
	}
	return strings.Join(parts, " ") + ")"
}

func (vc *VC) load(fr *Frame, st *State, p *Ptr, pos token.Pos) *Val {
	t := fieldType(p.Base, p.Path)
	if p.Cell != nil {
		cv, ok := st.cells[p.Cell]
		if !ok {
			vc.unsupported(st, "read-of-unmerged-cell:"+p.Cell.name, vc.pos(pos))
			cv = vc.havocVal(p.Cell.T, p.Cell.name)
			st.cells[p.Cell] = cv
		}
		if len(p.Path) == 0 {
			return cv
		}
		if cv.S == "" {
			vc.unsupported(st, "field-of-nonsmt-cell", vc.pos(pos))
			return vc.havocVal(t, "x")
		}
		return &Val{T: t, S: vc.getPath(cv.S, p.Base, p.Path)}
	}
	if len(p.Path) > 0 && opaqueStruct(p.Base) {
		// a field of a struct of another package that is not modelled field by
		// field: an arbitrary well-formed value of the field's type
		v := vc.havocVal(t, "opq")
		vc.assumeRefsBelow(st, v.S, t)
		return v
	}
	_, h := vc.heap(st, p.Base)
	base := "(select " + h + " " + p.Ref + ")"
	term := vc.getPath(base, p.Base, p.Path)
	term = vc.define("ld", vc.u.sortOf(t), term)
	for _, f := range vc.wfFacts(term, t, 0) {
		vc.assume(f)
	}
	vc.assumeRefsBelow(st, term, t)
	return &Val{T: t, S: term}
}

// assumeRefsBelow: every reference stored in memory is below the allocation
// counter (objects are allocated before their address can be stored).
func (vc *VC) assumeRefsBelow(st *State, term string, t types.Type) {
	for _, r := range vc.refTerms(term, t, 0) {
		vc.assume("(< " + r + " " + st.alloc + ")")
	}
}

func (vc *VC) refTerms(term string, t types.Type, depth int) []string {
	if depth > 3 || isTime(t) || opaqueStruct(t) {
		return nil
	}
	switch tt := types.Unalias(t).Underlying().(type) {
	case *types.Pointer, *types.Map:
		return []string{term}
	case *types.Slice:
		return []string{"(+ (sptr " + term + ") (scap " + term + "))"}
	case *types.Interface:
		// an interface value holding a pointer, a boxed struct or a slice refers
		// to memory as well; any_ref yields that address (0 for scalars)
		return []string{"(any_ref " + term + ")"}
	case *types.Struct:
		si := vc.u.structOf(t)
		if si == nil {
			return nil
		}
		var out []string
		for i := 0; i < tt.NumFields(); i++ {
			out = append(out, vc.refTerms("("+si.fields[i]+" "+term+")", tt.Field(i).Type(), depth+1)...)
		}
		return out
	}
	return nil
}

func (vc *VC) store(fr *Frame, st *State, p *Ptr, v *Val, pos token.Pos) {
	if p.Cell != nil {
		if len(p.Path) == 0 {
			st.cells[p.Cell] = v
			return
		}
		cv, ok := st.cells[p.Cell]
		if !ok || cv.S == "" || v.S == "" {
			vc.unsupported(st, "field-store-nonsmt", vc.pos(pos))
			return
		}
		nt := vc.setPath(cv.S, p.Base, p.Path, v.S)
		st.cells[p.Cell] = &Val{T: cv.T, S: vc.define(p.Cell.name, vc.u.sortOf(cv.T), nt)}
		return
	}
	if v.S == "" {
		vc.unsupported(st, "store-of-nonsmt-value", vc.pos(pos))
		return
	}
	key, h := vc.heap(st, p.Base)
	var nv string
	if len(p.Path) == 0 {
		nv = v.S
	} else {
		nv = vc.setPath("(select "+h+" "+p.Ref+")", p.Base, p.Path, v.S)
	}
	nh := vc.fresh("H_"+key, "(Array Int "+vc.u.sortOf(vc.u.heapKeys[key])+")")
	vc.assume(eq(nh, "(store "+h+" "+p.Ref+" "+nv+")"))
	st.heaps[key] = nh
}

// ---- allocation -------------------------------------------------------------------

func (vc *VC) allocate(st *State, n string) string {
	addr := st.alloc
	na := vc.fresh("alloc", "Int")
	vc.assume(eq(na, "(+ "+addr+" "+n+" 1)"))
	st.alloc = na
	return addr
}

// ---- instructions -------------------------------------------------------------------

func (vc *VC) execInstr(fr *Frame, st *State, in ssa.Instruction, b *ssa.BasicBlock, ins []*State) {
	switch x := in.(type) {
	case *ssa.DebugRef, *ssa.RunDefers:
		return
	case *ssa.Alloc:
		et := deref(x.Type())
		if !x.Heap {
			c := vc.newCell(x.Comment, et)
			if x.Comment == "" {
				c.name = x.Name()
			}
			fr.cellOf[x] = c
			st.cells[c] = &Val{T: et, S: vc.u.zero(et)}
			fr.regs[x] = &Val{T: x.Type(), P: &Ptr{Cell: c, Base: et}}
			return
		}
		if at, ok := types.Unalias(et).Underlying().(*types.Array); ok {
			// new [N]T : N consecutive elements in the heap of T
			n := fmt.Sprintf("%d", at.Len())
			addr := vc.allocate(st, n)
			key, h := vc.heap(st, at.Elem())
			nh := h
			for i := int64(0); i < at.Len() && i < 8; i++ {
				nh = fmt.Sprintf("(store %s (+ %s %d) %s)", nh, addr, i, vc.u.zero(at.Elem()))
			}
			if at.Len() > 8 {
				vc.unsupported(st, "large-array-alloc", vc.pos(x.Pos()))
			}
			st.heaps[key] = vc.define("H_"+key, "(Array Int "+vc.u.sortOf(vc.u.heapKeys[key])+")", nh)
			fr.regs[x] = &Val{T: x.Type(), S: addr}
			return
		}
		addr := vc.allocate(st, "1")
		vc.store(fr, st, &Ptr{Ref: addr, Base: et}, &Val{T: et, S: vc.u.zero(et)}, x.Pos())
		vc.assume("(> " + addr + " 0)")
		fr.regs[x] = &Val{T: x.Type(), S: addr}
	case *ssa.Store:
		a := vc.val(fr, st, x.Addr)
		v := vc.val(fr, st, x.Val)
		p := vc.asPtr(a)
		if p.Cell == nil && len(p.Path) == 0 {
			vc.safety(fr, st, "nilptr", "(not (= "+p.Ref+" 0))", x.Pos(), "*"+x.Addr.Name())
		}
		vc.store(fr, st, p, v, x.Pos())
	case *ssa.UnOp:
		vc.execUnOp(fr, st, x)
	case *ssa.BinOp:
		fr.regs[x] = vc.binop(fr, st, x.Op, vc.val(fr, st, x.X), vc.val(fr, st, x.Y), x.Type(), x.Pos())
	case *ssa.FieldAddr:
		base := vc.val(fr, st, x.X)
		p := vc.asPtr(base)
		if p.Cell == nil && len(p.Path) == 0 {
			vc.safety(fr, st, "nilptr", "(not (= "+p.Ref+" 0))", x.Pos(), x.X.Name()+"."+fieldName(p.Base, x.Field))
		}
		np := &Ptr{Cell: p.Cell, Ref: p.Ref, Base: p.Base, Path: append(append([]int{}, p.Path...), x.Field)}
		fr.regs[x] = &Val{T: x.Type(), P: np}
	case *ssa.Field:
		sv := vc.val(fr, st, x.X)
		si := vc.u.structOf(sv.T)
		ft := si.st.Field(x.Field).Type()
		fr.regs[x] = &Val{T: ft, S: "(" + si.fields[x.Field] + " " + sv.S + ")"}
	case *ssa.IndexAddr:
		vc.execIndexAddr(fr, st, x)
	case *ssa.Index:
		vc.execIndex(fr, st, x)
	case *ssa.Lookup:
		vc.execLookup(fr, st, x)
	case *ssa.MapUpdate:
		vc.execMapUpdate(fr, st, x)
	case *ssa.MakeMap:
		mt := types.Unalias(x.Type()).Underlying().(*types.Map)
		fr.regs[x] = vc.makeMap(st, mt, x.Type())
	case *ssa.MakeSlice:
		vc.execMakeSlice(fr, st, x)
	case *ssa.Slice:
		vc.execSlice(fr, st, x)
	case *ssa.MakeInterface:
		fr.regs[x] = vc.makeIface(st, vc.val(fr, st, x.X), x.Type())
	case *ssa.ChangeInterface:
		v := vc.val(fr, st, x.X)
		fr.regs[x] = &Val{T: x.Type(), S: v.S}
	case *ssa.ChangeType:
		v := vc.val(fr, st, x.X)
		nv := *v
		nv.T = x.Type()
		fr.regs[x] = &nv
	case *ssa.Convert:
		fr.regs[x] = vc.convert(fr, st, vc.val(fr, st, x.X), x.Type(), x.Pos())
	case *ssa.TypeAssert:
		vc.execTypeAssert(fr, st, x)
	case *ssa.Extract:
		t := vc.val(fr, st, x.Tuple)
		if x.Index < len(t.Tup) {
			fr.regs[x] = t.Tup[x.Index]
		} else {
			vc.unsupported(st, "extract", vc.pos(x.Pos()))
			fr.regs[x] = vc.havocVal(x.Type(), "x")
		}
	case *ssa.Phi:
		var conds []string
		var vals []*Val
		for i, e := range x.Edges {
			p := b.Preds[i]
			es, ok := fr.edgeOut[[2]int{p.Index, b.Index}]
			if !ok {
				continue
			}
			conds = append(conds, es.reach)
			vals = append(vals, vc.val(fr, es, e))
		}
		if len(vals) == 0 {
			vc.unsupported(st, "phi-without-edges", vc.pos(x.Pos()))
			fr.regs[x] = vc.havocVal(x.Type(), "phi")
			return
		}
		m, ok := vc.mergeVals(conds, vals, "phi")
		if !ok {
			vc.unsupported(st, "phi-merge", vc.pos(x.Pos()))
			m = vc.havocVal(x.Type(), "phi")
		}
		fr.regs[x] = m
	case *ssa.Call:
		vc.execCall(fr, st, x)
	case *ssa.MakeClosure:
		fn := x.Fn.(*ssa.Function)
		v := &Val{T: x.Type(), S: fmt.Sprintf("%d", vc.eng.funcID(fn)), Fn: fn}
		for _, bnd := range x.Bindings {
			v.Bind = append(v.Bind, vc.val(fr, st, bnd))
		}
		fr.regs[x] = v
	case *ssa.Range:
		vc.execRange(fr, st, x)
	case *ssa.Next:
		vc.execNext(fr, st, x)
	default:
		vc.unsupported(st, fmt.Sprintf("%T", in), vc.pos(in.Pos()))
		if v, ok := in.(ssa.Value); ok {
			fr.regs[v] = vc.havocVal(v.Type(), "u")
		}
	}
}

func fieldName(t types.Type, i int) string {
	if st, ok := types.Unalias(t).Underlying().(*types.Struct); ok && i < st.NumFields() {
		return st.Field(i).Name()
	}
	return fmt.Sprint(i)
}

func (vc *VC) execUnOp(fr *Frame, st *State, x *ssa.UnOp) {
	v := vc.val(fr, st, x.X)
	switch x.Op {
	case token.MUL: // load
		p := vc.asPtr(v)
		if p.Cell == nil && len(p.Path) == 0 {
			vc.safety(fr, st, "nilptr", "(not (= "+p.Ref+" 0))", x.Pos(), "*"+x.X.Name())
		}
		if p.Cell == nil {
			if _, isArr := types.Unalias(p.Base).Underlying().(*types.Array); isArr && len(p.Path) == 0 {
				vc.unsupported(st, "array-value-load", vc.pos(x.Pos()))
				fr.regs[x] = vc.havocVal(x.Type(), "arr")
				return
			}
		}
		fr.regs[x] = vc.load(fr, st, p, x.Pos())
	case token.NOT:
		fr.regs[x] = &Val{T: x.Type(), S: not(v.S)}
	case token.SUB:
		if vc.u.sortOf(x.Type()) == "Real" {
			fr.regs[x] = &Val{T: x.Type(), S: "(- " + v.S + ")"}
			return
		}
		fr.regs[x] = &Val{T: x.Type(), S: vc.define("neg", "Int", wrapInt("(- "+v.S+")", x.Type()))}
	default:
		vc.unsupported(st, "unop"+x.Op.String(), vc.pos(x.Pos()))
		fr.regs[x] = vc.havocVal(x.Type(), "u")
	}
}

func isStringT(t types.Type) bool {
	if t == nil {
		return false
	}
	b, ok := types.Unalias(t).Underlying().(*types.Basic)
	return ok && b.Info()&types.IsString != 0
}

func isIntT(t types.Type) bool {
	_, _, ok := intRange(t)
	return ok
}

func (vc *VC) binop(fr *Frame, st *State, op token.Token, a, b *Val, rt types.Type, pos token.Pos) *Val {
	res := func(s string) *Val { return &Val{T: rt, S: s} }
	if a.S == "" || b.S == "" {
		// executor-level pointer comparison
		if (op == token.EQL || op == token.NEQ) && a.P != nil && b.P != nil {
			same := valSame(a, b)
			if (op == token.EQL) == same {
				return res("true")
			}
			return res("false")
		}
		vc.unsupported(st, "binop-on-nonsmt", vc.pos(pos))
		return vc.havocVal(rt, "b")
	}
	switch op {
	case token.EQL:
		return res(eq(a.S, b.S))
	case token.NEQ:
		return res(not(eq(a.S, b.S)))
	}
	if isStringT(a.T) {
		switch op {
		case token.ADD:
			return res(vc.define("cat", "String", "(str.++ "+a.S+" "+b.S+")"))
		case token.LSS:
			return res("(str.< " + a.S + " " + b.S + ")")
		case token.LEQ:
			return res("(str.<= " + a.S + " " + b.S + ")")
		case token.GTR:
			return res("(str.< " + b.S + " " + a.S + ")")
		case token.GEQ:
			return res("(str.<= " + b.S + " " + a.S + ")")
		}
	}
	if isIntT(a.T) {
		switch op {
		case token.LSS:
			return res("(< " + a.S + " " + b.S + ")")
		case token.LEQ:
			return res("(<= " + a.S + " " + b.S + ")")
		case token.GTR:
			return res("(> " + a.S + " " + b.S + ")")
		case token.GEQ:
			return res("(>= " + a.S + " " + b.S + ")")
		case token.ADD, token.SUB, token.MUL:
			o := map[token.Token]string{token.ADD: "+", token.SUB: "-", token.MUL: "*"}[op]
			exact := "(" + o + " " + a.S + " " + b.S + ")"
			if fr != nil && fr.con != nil && fr.con.Flags["nooverflow"] {
				n := fr.ovfN
				fr.ovfN++
				vc.oblige(st, "ovf", fmt.Sprintf("%sovf#%d", fr.prefix, n), inRange(exact, rt), vc.pos(pos), exact)
				vc.assume(implies(st.reach, inRange(exact, rt)))
				return res(vc.define("ar", "Int", exact))
			}
			// rangeindex+1 style increments of values known to be small need no wrap
			return res(vc.define("ar", "Int", wrapInt(exact, rt)))
		case token.QUO, token.REM:
			vc.safety(fr, st, "div", "(not (= "+b.S+" 0))", pos, "division")
			// Go truncates toward zero; SMT div floors (for positive divisor)
			q := fmt.Sprintf("(ite (>= %s 0) (div %s %s) (- (div (- %s) %s)))", a.S, a.S, b.S, a.S, b.S)
			if op == token.QUO {
				return res(vc.define("quo", "Int", wrapInt(q, rt)))
			}
			return res(vc.define("rem", "Int", "(- "+a.S+" (* "+b.S+" "+q+"))"))
		}
	}
	if vc.u.sortOf(a.T) == "Bool" {
		switch op {
		case token.AND, token.LAND:
			return res(and(a.S, b.S))
		case token.OR, token.LOR:
			return res(or(a.S, b.S))
		}
	}
	vc.unsupported(st, "binop"+op.String()+":"+typeStr(a.T), vc.pos(pos))
	return vc.havocVal(rt, "b")
}

func (vc *VC) convert(fr *Frame, st *State, v *Val, to types.Type, pos token.Pos) *Val {
	from := v.T
	switch {
	case isIntT(from) && isIntT(to):
		lo1, hi1, _ := intRange(from)
		lo2, hi2, _ := intRange(to)
		if lo1 == lo2 && hi1 == hi2 {
			return &Val{T: to, S: v.S}
		}
		return &Val{T: to, S: vc.define("cv", "Int", wrapInt(v.S, to))}
	case isStringT(from) && isStringT(to):
		return &Val{T: to, S: v.S}
	case isStringT(to) && isByteSlice(from):
		_, h := vc.heap(st, byteT)
		vc.u.declareUninterp("bytes2str", []string{"(Array Int Int)", "Slice"}, "String")
		s := vc.define("b2s", "String", "(bytes2str "+h+" "+v.S+")")
		vc.assume("(= (str.len " + s + ") (slen " + v.S + "))")
		return &Val{T: to, S: s}
	case isByteSlice(to) && isStringT(from):
		// fresh byte slice holding the string's bytes
		n := "(str.len " + v.S + ")"
		addr := vc.allocate(st, n)
		key, h := vc.heap(st, byteT)
		nh := vc.fresh("H_"+key, "(Array Int Int)")
		vc.assume(fmt.Sprintf("(forall ((a Int)) (! (= (select %s a) (ite (and (<= %s a) (< a (+ %s %s))) (str.to_code (str.at %s (- a %s))) (select %s a))) :pattern ((select %s a))))", nh, addr, addr, n, v.S, addr, h, nh))
		st.heaps[key] = nh
		vc.bytesFrame(key, h, nh, addr)
		sl := vc.define("s2b", "Slice", fmt.Sprintf("(mkSlice (ite (= %s 0) 0 %s) %s %s)", n, addr, n, n))
		vc.u.declareUninterp("bytes2str", []string{"(Array Int Int)", "Slice"}, "String")
		vc.assume("(= (bytes2str " + nh + " " + sl + ") " + v.S + ")")
		return &Val{T: to, S: sl}
	case vc.u.sortOf(from) == vc.u.sortOf(to):
		nv := *v
		nv.T = to
		return &nv
	}
	vc.unsupported(st, "convert:"+typeStr(from)+"->"+typeStr(to), vc.pos(pos))
	return vc.havocVal(to, "cv")
}

var byteT = types.Typ[types.Uint8]

func isByteSlice(t types.Type) bool {
	s, ok := types.Unalias(t).Underlying().(*types.Slice)
	if !ok {
		return false
	}
	b, ok := types.Unalias(s.Elem()).Underlying().(*types.Basic)
	return ok && b.Kind() == types.Uint8
}

func (vc *VC) execIndexAddr(fr *Frame, st *State, x *ssa.IndexAddr) {
	base := vc.val(fr, st, x.X)
	idx := vc.val(fr, st, x.Index)
	switch bt := types.Unalias(base.T).Underlying().(type) {
	case *types.Slice:
		vc.safety(fr, st, "index", fmt.Sprintf("(and (<= 0 %s) (< %s (slen %s)))", idx.S, idx.S, base.S), x.Pos(), x.X.Name()+"["+x.Index.Name()+"]")
		addr := vc.define("ea", "Int", "(idx (sptr "+base.S+") "+idx.S+")")
		fr.regs[x] = &Val{T: x.Type(), S: addr}
		_ = bt
	case *types.Pointer:
		at, ok := types.Unalias(bt.Elem()).Underlying().(*types.Array)
		if !ok || base.S == "" {
			vc.unsupported(st, "indexaddr", vc.pos(x.Pos()))
			fr.regs[x] = vc.havocVal(x.Type(), "ea")
			return
		}
		vc.safety(fr, st, "index", fmt.Sprintf("(and (<= 0 %s) (< %s %d))", idx.S, idx.S, at.Len()), x.Pos(), "array index")
		fr.regs[x] = &Val{T: x.Type(), S: vc.define("ea", "Int", "(+ "+base.S+" "+idx.S+")")}
	default:
		vc.unsupported(st, "indexaddr", vc.pos(x.Pos()))
		fr.regs[x] = vc.havocVal(x.Type(), "ea")
	}
}

func (vc *VC) execIndex(fr *Frame, st *State, x *ssa.Index) {
	base := vc.val(fr, st, x.X)
	idx := vc.val(fr, st, x.Index)
	if isStringT(base.T) {
		vc.safety(fr, st, "index", fmt.Sprintf("(and (<= 0 %s) (< %s (str.len %s)))", idx.S, idx.S, base.S), x.Pos(), x.X.Name()+"["+x.Index.Name()+"]")
		c := vc.define("ch", "Int", "(str.to_code (str.at "+base.S+" "+idx.S+"))")
		vc.assume("(and (<= 0 " + c + ") (<= " + c + " 255))")
		fr.regs[x] = &Val{T: x.Type(), S: c}
		return
	}
	vc.unsupported(st, "index-array", vc.pos(x.Pos()))
	fr.regs[x] = vc.havocVal(x.Type(), "ix")
}

func (vc *VC) execLookup(fr *Frame, st *State, x *ssa.Lookup) {
	m := vc.val(fr, st, x.X)
	k := vc.val(fr, st, x.Index)
	if isStringT(m.T) {
		vc.safety(fr, st, "index", fmt.Sprintf("(and (<= 0 %s) (< %s (str.len %s)))", k.S, k.S, m.S), x.Pos(), "string index")
		c := vc.define("ch", "Int", "(str.to_code (str.at "+m.S+" "+k.S+"))")
		vc.assume("(and (<= 0 " + c + ") (<= " + c + " 255))")
		fr.regs[x] = &Val{T: x.Type(), S: c}
		return
	}
	mt := types.Unalias(m.T).Underlying().(*types.Map)
	has, v := vc.mapGet(st, m, k, mt)
	if x.CommaOk {
		fr.regs[x] = &Val{T: x.Type(), Tup: []*Val{v, {T: types.Typ[types.Bool], S: has}}}
	} else {
		fr.regs[x] = v
	}
}

func (vc *VC) mapGet(st *State, m, k *Val, mt *types.Map) (has string, v *Val) {
	_, dom, val, _ := vc.mapArrays(st, mt)
	has = vc.define("has", "Bool", fmt.Sprintf("(and (not (= %s 0)) (select (select %s %s) %s))", m.S, dom, m.S, k.S))
	raw := fmt.Sprintf("(select (select %s %s) %s)", val, m.S, k.S)
	term := vc.define("mv", vc.u.sortOf(mt.Elem()), ite(has, raw, vc.u.zero(mt.Elem())))
	for _, f := range vc.wfFacts(term, mt.Elem(), 0) {
		vc.assume(f)
	}
	vc.assumeRefsBelow(st, term, mt.Elem())
	return has, &Val{T: mt.Elem(), S: term}
}

func (vc *VC) execMapUpdate(fr *Frame, st *State, x *ssa.MapUpdate) {
	m := vc.val(fr, st, x.Map)
	k := vc.val(fr, st, x.Key)
	v := vc.val(fr, st, x.Value)
	mt := types.Unalias(m.T).Underlying().(*types.Map)
	vc.safety(fr, st, "nilmap", "(not (= "+m.S+" 0))", x.Pos(), x.Map.Name()+"[...] = ...")
	if v.S == "" {
		vc.unsupported(st, "mapupdate-nonsmt", vc.pos(x.Pos()))
		return
	}
	vc.mapSet(st, m, k.S, v.S, mt)
}

func (vc *VC) mapSet(st *State, m *Val, k, v string, mt *types.Map) {
	key, dom, val, card := vc.mapArrays(st, mt)
	c := vc.u.mapKeys[key]
	ks, vs := vc.u.sortOf(c.Key()), vc.u.sortOf(c.Elem())
	nd := vc.fresh("MD_"+key, "(Array Int (Array "+ks+" Bool))")
	nv := vc.fresh("MV_"+key, "(Array Int (Array "+ks+" "+vs+"))")
	nc := vc.fresh("MC_"+key, "(Array Int Int)")
	vc.assume(eq(nd, fmt.Sprintf("(store %s %s (store (select %s %s) %s true))", dom, m.S, dom, m.S, k)))
	vc.assume(eq(nv, fmt.Sprintf("(store %s %s (store (select %s %s) %s %s))", val, m.S, val, m.S, k, v)))
	vc.assume(eq(nc, fmt.Sprintf("(store %s %s (ite (select (select %s %s) %s) (select %s %s) (+ (select %s %s) 1)))", card, m.S, dom, m.S, k, card, m.S, card, m.S)))
	st.mdom[key], st.mval[key], st.mcard[key] = nd, nv, nc
}

func (vc *VC) mapDelete(st *State, m *Val, k string, mt *types.Map) {
	key, dom, _, card := vc.mapArrays(st, mt)
	c := vc.u.mapKeys[key]
	ks := vc.u.sortOf(c.Key())
	nd := vc.fresh("MD_"+key, "(Array Int (Array "+ks+" Bool))")
	nc := vc.fresh("MC_"+key, "(Array Int Int)")
	vc.assume(eq(nd, fmt.Sprintf("(ite (= %s 0) %s (store %s %s (store (select %s %s) %s false)))", m.S, dom, dom, m.S, dom, m.S, k)))
	vc.assume(eq(nc, fmt.Sprintf("(ite (and (not (= %s 0)) (select (select %s %s) %s)) (store %s %s (- (select %s %s) 1)) %s)", m.S, dom, m.S, k, card, m.S, card, m.S, card)))
	st.mdom[key], st.mcard[key] = nd, nc
}

func (vc *VC) makeMap(st *State, mt *types.Map, t types.Type) *Val {
	addr := vc.allocate(st, "1")
	vc.assume("(> " + addr + " 0)")
	key, dom, _, card := vc.mapArrays(st, mt)
	c := vc.u.mapKeys[key]
	ks := vc.u.sortOf(c.Key())
	nd := vc.fresh("MD_"+key, "(Array Int (Array "+ks+" Bool))")
	nc := vc.fresh("MC_"+key, "(Array Int Int)")
	vc.assume(eq(nd, fmt.Sprintf("(store %s %s ((as const (Array %s Bool)) false))", dom, addr, ks)))
	vc.assume(eq(nc, fmt.Sprintf("(store %s %s 0)", card, addr)))
	st.mdom[key], st.mcard[key] = nd, nc
	return &Val{T: t, S: addr}
}

func (vc *VC) execMakeSlice(fr *Frame, st *State, x *ssa.MakeSlice) {
	ln := vc.val(fr, st, x.Len)
	cp := vc.val(fr, st, x.Cap)
	vc.safety(fr, st, "makelen", "(>= "+ln.S+" 0)", x.Pos(), "make len")
	vc.safety(fr, st, "makecap", "(>= "+cp.S+" "+ln.S+")", x.Pos(), "make cap")
	et := types.Unalias(x.Type()).Underlying().(*types.Slice).Elem()
	fr.regs[x] = vc.makeSlice(st, x.Type(), et, ln.S, cp.S)
}

func (vc *VC) makeSlice(st *State, t, et types.Type, ln, cp string) *Val {
	addr := vc.allocate(st, cp)
	vc.assume("(> " + addr + " 0)")
	key, h := vc.heap(st, et)
	es := vc.u.sortOf(vc.u.heapKeys[key])
	nh := vc.fresh("H_"+key, "(Array Int "+es+")")
	vc.assume(fmt.Sprintf("(forall ((a Int)) (! (= (select %s a) (ite (and (<= %s a) (< a (+ %s %s))) %s (select %s a))) :pattern ((select %s a))))", nh, addr, addr, cp, vc.u.zero(et), h, nh))
	st.heaps[key] = nh
	vc.bytesFrame(key, h, nh, addr)
	return &Val{T: t, S: vc.define("mk", "Slice", fmt.Sprintf("(mkSlice %s %s %s)", addr, ln, cp))}
}

func (vc *VC) execSlice(fr *Frame, st *State, x *ssa.Slice) {
	base := vc.val(fr, st, x.X)
	var lo, hi string
	if x.Low != nil {
		lo = vc.val(fr, st, x.Low).S
	} else {
		lo = "0"
	}
	if x.Max != nil {
		vc.unsupported(st, "3-index-slice", vc.pos(x.Pos()))
	}
	switch bt := types.Unalias(base.T).Underlying().(type) {
	case *types.Slice:
		if x.High != nil {
			hi = vc.val(fr, st, x.High).S
		} else {
			hi = "(slen " + base.S + ")"
		}
		vc.safety(fr, st, "slice", fmt.Sprintf("(and (<= 0 %s) (<= %s %s) (<= %s (scap %s)))", lo, lo, hi, hi, base.S), x.Pos(), x.X.Name()+"["+lo+":"+hi+"]")
		fr.regs[x] = &Val{T: x.Type(), S: vc.define("sl", "Slice", fmt.Sprintf("(mkSlice (+ (sptr %s) %s) (- %s %s) (- (scap %s) %s))", base.S, lo, hi, lo, base.S, lo))}
	case *types.Basic: // string
		if x.High != nil {
			hi = vc.val(fr, st, x.High).S
		} else {
			hi = "(str.len " + base.S + ")"
		}
		vc.safety(fr, st, "slice", fmt.Sprintf("(and (<= 0 %s) (<= %s %s) (<= %s (str.len %s)))", lo, lo, hi, hi, base.S), x.Pos(), x.X.Name()+"["+lo+":"+hi+"]")
		fr.regs[x] = &Val{T: x.Type(), S: vc.define("sub", "String", fmt.Sprintf("(str.substr %s %s (- %s %s))", base.S, lo, hi, lo))}
	case *types.Pointer:
		at, ok := types.Unalias(bt.Elem()).Underlying().(*types.Array)
		if !ok || base.S == "" {
			vc.unsupported(st, "slice-of-pointer", vc.pos(x.Pos()))
			fr.regs[x] = vc.havocVal(x.Type(), "sl")
			return
		}
		if x.High != nil {
			hi = vc.val(fr, st, x.High).S
		} else {
			hi = fmt.Sprint(at.Len())
		}
		if x.Low == nil && x.High == nil {
			// whole array (the varargs pattern): statically known length
			fr.regs[x] = &Val{T: x.Type(), S: fmt.Sprintf("(mkSlice %s %d %d)", base.S, at.Len(), at.Len()), KLen: int(at.Len())}
			return
		}
		vc.safety(fr, st, "slice", fmt.Sprintf("(and (<= 0 %s) (<= %s %s) (<= %s %d))", lo, lo, hi, hi, at.Len()), x.Pos(), "array slice")
		fr.regs[x] = &Val{T: x.Type(), S: vc.define("sl", "Slice", fmt.Sprintf("(mkSlice (+ %s %s) (- %s %s) (- %d %s))", base.S, lo, hi, lo, at.Len(), lo))}
	default:
		vc.unsupported(st, "slice", vc.pos(x.Pos()))
		fr.regs[x] = vc.havocVal(x.Type(), "sl")
	}
}

// ---- interfaces -------------------------------------------------------------------

// ifaceRepr says which payload slot of Any carries values of concrete type t.
func (vc *VC) ifaceRepr(t types.Type) string {
	if isTime(t) {
		return "box"
	}
	switch vc.u.sortOf(t) {
	case "Int":
		return "num"
	case "Bool":
		return "bool"
	case "String":
		return "str"
	case "Slice":
		return "slice"
	case "Any":
		return "any"
	}
	return "box"
}

func (vc *VC) makeIface(st *State, v *Val, it types.Type) *Val {
	t := v.T
	if _, ok := types.Unalias(t).Underlying().(*types.Interface); ok {
		return &Val{T: it, S: v.S}
	}
	if v.S == "" && v.P != nil {
		// pointer to a local or to a field: an opaque non-nil interface value that
		// remembers the executor-level pointer (used by json.Unmarshal and friends)
		a := vc.fresh("ifp", "Any")
		vc.assume(fmt.Sprintf("(and (wf_any %s) (= (atag %s) %d))", a, a, vc.u.tagOf(t)))
		return &Val{T: it, S: a, P: v.P}
	}
	if v.S == "" {
		vc.unsupported(st, "makeinterface-nonsmt", token.Position{})
		return vc.havocVal(it, "if")
	}
	tag := vc.u.tagOf(t)
	var term string
	switch vc.ifaceRepr(t) {
	case "num":
		term = fmt.Sprintf("(mkAny %d %s \"\" nil_slice)", tag, v.S)
	case "bool":
		term = fmt.Sprintf("(mkAny %d (ite %s 1 0) \"\" nil_slice)", tag, v.S)
	case "str":
		term = fmt.Sprintf("(mkAny %d 0 %s nil_slice)", tag, v.S)
	case "slice":
		term = fmt.Sprintf("(mkAny %d 0 \"\" %s)", tag, v.S)
	default: // boxed struct: immutable copy at a fresh address
		addr := vc.allocate(st, "1")
		vc.assume("(> " + addr + " 0)")
		vc.store(nil, st, &Ptr{Ref: addr, Base: t}, v, token.NoPos)
		term = fmt.Sprintf("(mkAny %d %s \"\" nil_slice)", tag, addr)
	}
	return &Val{T: it, S: vc.define("if", "Any", term)}
}

func (vc *VC) unbox(st *State, a string, t types.Type) *Val {
	switch vc.ifaceRepr(t) {
	case "num":
		v := &Val{T: t, S: "(anum " + a + ")"}
		return v
	case "bool":
		return &Val{T: t, S: "(= (anum " + a + ") 1)"}
	case "str":
		return &Val{T: t, S: "(astr " + a + ")"}
	case "slice":
		return &Val{T: t, S: "(asl " + a + ")"}
	}
	_, h := vc.heap(st, t)
	term := vc.define("ub", vc.u.sortOf(t), "(select "+h+" (anum "+a+"))")
	return &Val{T: t, S: term}
}

func (vc *VC) execTypeAssert(fr *Frame, st *State, x *ssa.TypeAssert) {
	v := vc.val(fr, st, x.X)
	at := x.AssertedType
	var ok string
	var res *Val
	if _, isIface := types.Unalias(at).Underlying().(*types.Interface); isIface {
		ok = vc.implementsTerm(v.S, at)
		res = &Val{T: at, S: v.S}
		if x.CommaOk {
			res = &Val{T: at, S: ite(ok, v.S, "nil_any")}
		}
	} else {
		tag := vc.u.tagOf(at)
		ok = fmt.Sprintf("(= (atag %s) %d)", v.S, tag)
		res = vc.unbox(st, v.S, at)
		if vc.ifaceRepr(at) == "bool" {
			vc.assume(implies(ok, fmt.Sprintf("(or (= (anum %s) 0) (= (anum %s) 1))", v.S, v.S)))
		}
		if x.CommaOk {
			res = &Val{T: at, S: vc.define("ta", vc.u.sortOf(at), ite(ok, res.S, vc.u.zero(at)))}
		}
		// values unboxed from an interface satisfy their type's invariants
		if !x.CommaOk {
			defer func() {
				for _, f := range vc.wfFacts(res.S, at, 0) {
					vc.assume(implies(st.reach, f))
				}
			}()
		} else {
			for _, f := range vc.wfFacts(res.S, at, 0) {
				vc.assume(f)
			}
		}
	}
	if x.CommaOk {
		fr.regs[x] = &Val{T: x.Type(), Tup: []*Val{res, {T: types.Typ[types.Bool], S: ok}}}
		return
	}
	vc.safety(fr, st, "typeassert", ok, x.Pos(), x.X.Name()+".("+typeStr(at)+")")
	fr.regs[x] = res
}

// implementsTerm: does the dynamic type of a implement interface type it?
func (vc *VC) implementsTerm(a string, it types.Type) string {
	iface := types.Unalias(it).Underlying().(*types.Interface)
	if iface.Empty() {
		return "(not (= (atag " + a + ") 0))"
	}
	name := "impl_" + mangle(typeStr(it))
	vc.u.declareUninterp(name, []string{"Int"}, "Bool")
	vc.eng.implFacts(vc, name, iface)
	return fmt.Sprintf("(and (not (= (atag %s) 0)) (%s (atag %s)))", a, name, a)
}

// bytesFrame: string(b) of a byte slice that lies entirely below `below` is the
// same in heap version hNew as in hOld (only memory at or above `below` differs).
func (vc *VC) bytesFrame(key, hOld, hNew, below string) {
	if key != vc.u.heapKey(byteT) {
		return
	}
	if _, ok := vc.u.uninterpN["bytes2str"]; !ok {
		vc.u.declareUninterp("bytes2str", []string{"(Array Int Int)", "Slice"}, "String")
	}
	vc.assume(fmt.Sprintf("(forall ((s Slice)) (! (=> (<= (+ (sptr s) (scap s)) %s) (= (bytes2str %s s) (bytes2str %s s))) :pattern ((bytes2str %s s))))", below, hNew, hOld, hNew))
}
