package main

// Name table: the parameter and local-variable names the contracts were written
// against, by position. Contracts name locals; a rename in the repository would
// otherwise leave the contract pointing at nothing. When the list of locals of
// a function still has the recorded shape (same number, same types in source
// order), a recorded name that no longer exists is resolved to the local now at
// its position. Binding a name to the wrong variable cannot make a proof pass
// wrongly: every clause that uses it is still checked.

import (
	"encoding/json"
	"fmt"
	"os"
	"path/filepath"
	"sort"

	"golang.org/x/tools/go/ssa"
)

type fnNames struct {
	Params []string    `json:"params"`
	Allocs [][2]string `json:"allocs"` // name, type (source order)
}

var namesTable map[string]fnNames

func loadNames(root string) {
	namesTable = nil
	b, err := os.ReadFile(filepath.Join(root, "names.json"))
	if err != nil {
		return
	}
	_ = json.Unmarshal(b, &namesTable)
}

func allocsInOrder(fn *ssa.Function) []*ssa.Alloc {
	var allocs []*ssa.Alloc
	for _, b := range fn.Blocks {
		for _, in := range b.Instrs {
			if a, ok := in.(*ssa.Alloc); ok {
				allocs = append(allocs, a)
			}
		}
	}
	sort.SliceStable(allocs, func(i, j int) bool { return allocs[i].Pos() < allocs[j].Pos() })
	return allocs
}

func paramNames(fn *ssa.Function) []string {
	var names []string
	if r := fn.Signature.Recv(); r != nil {
		names = append(names, r.Name())
	}
	for i := 0; i < fn.Signature.Params().Len(); i++ {
		names = append(names, fn.Signature.Params().At(i).Name())
	}
	return names
}

// cmdNames writes the table for every function that has a contract.
func cmdNames(args []string) int {
	repo, out := "/repo", "/verif/names.json"
	if len(args) > 0 {
		repo = args[0]
	}
	if len(args) > 1 {
		out = args[1]
	}
	e, err := loadEngine(repo, nil)
	if err != nil {
		fmt.Println(err)
		return 2
	}
	t := map[string]fnNames{}
	for name := range e.contracts {
		fn := e.funcs[name]
		if fn == nil || fn.Blocks == nil {
			continue
		}
		fnm := fnNames{Params: paramNames(fn)}
		for _, a := range allocsInOrder(fn) {
			fnm.Allocs = append(fnm.Allocs, [2]string{a.Comment, typeStr(a.Type())})
		}
		t[name] = fnm
	}
	b, _ := json.MarshalIndent(t, "", " ")
	if err := os.WriteFile(out, append(b, '\n'), 0o644); err != nil {
		fmt.Println(err)
		return 2
	}
	fmt.Println("wrote", out, len(t), "functions")
	return 0
}

// aliasAllocs maps "recordedName#k" to the local now at the recorded position,
// for recorded names that no longer occur in fn.
func aliasAllocs(fn *ssa.Function, cur []*ssa.Alloc) map[string]*ssa.Alloc {
	rec, ok := namesTable[fnDisplayName(fn)]
	if !ok || len(rec.Allocs) != len(cur) {
		return nil
	}
	for i, a := range cur {
		if rec.Allocs[i][1] != typeStr(a.Type()) {
			return nil
		}
	}
	present := map[string]bool{}
	for _, a := range cur {
		present[a.Comment] = true
	}
	out := map[string]*ssa.Alloc{}
	occ := map[string]int{}
	for i, r := range rec.Allocs {
		n := r[0]
		if n == "" {
			continue
		}
		k := occ[n]
		occ[n]++
		if !present[n] {
			out[fmt.Sprintf("%s#%d", n, k)] = cur[i]
		}
	}
	return out
}

// aliasParams returns recorded parameter names that differ from the current ones.
func aliasParams(fn *ssa.Function) map[int]string {
	rec, ok := namesTable[fnDisplayName(fn)]
	cur := paramNames(fn)
	if !ok || len(rec.Params) != len(cur) {
		return nil
	}
	have := map[string]bool{}
	for _, n := range cur {
		have[n] = true
	}
	out := map[int]string{}
	for i, n := range rec.Params {
		if n != cur[i] && n != "" && n != "_" && !have[n] {
			out[i] = n
		}
	}
	return out
}
