package main

import (
	"encoding/json"
	"flag"
	"fmt"
	"os"
	"path/filepath"
	"sort"
	"strconv"
	"strings"
	"time"
)

func cmdCheck(args []string) int {
	fs := flag.NewFlagSet("check", flag.ExitOnError)
	repo := fs.String("repo", "/repo", "repository to verify")
	prop := fs.String("p", "", "property id")
	tier := fs.String("tier", envOr("VERIF_TIER", "quick"), "quick|thorough")
	only := fs.String("f", "", "only this function (debug)")
	verbose := fs.Bool("v", false, "list every obligation")
	keep := fs.String("keep", "", "keep queries in this directory")
	evdir := fs.String("evidence", "/verif/evidence", "")
	fs.Parse(args)
	seed, _ := strconv.Atoi(envOr("VERIF_SEED", "0"))
	t0 := time.Now()
	e, err := loadEngine(*repo, nil)
	if err != nil {
		fmt.Fprintln(os.Stderr, "load:", err)
		return 2
	}
	for _, pe := range e.parseErrs {
		fmt.Println("contract error:", pe)
	}
	var names []string
	for _, n := range sortedKeys(e.contracts) {
		c := e.contracts[n]
		if *only != "" {
			if n == *only {
				names = append(names, n)
			}
			continue
		}
		if c.Flags["trusted"] {
			continue
		}
		for _, p := range c.Props {
			if p == *prop || *prop == "all" {
				names = append(names, n)
				break
			}
		}
	}
	var all []*Obligation
	var vcs []*VC
	for _, n := range names {
		vc, err := e.verifyFunc(n)
		if err != nil {
			fmt.Println("error:", n, err)
			continue
		}
		vcs = append(vcs, vc)
		all = append(all, vc.obls...)
	}
	tmp, _ := os.MkdirTemp("", "govc")
	if *keep != "" {
		tmp = *keep
		os.MkdirAll(tmp, 0o755)
	} else {
		defer os.RemoveAll(tmp)
	}
	opt := solveOpts{timeoutS: 8, seed: seed, tmp: tmp, keep: *keep != ""}
	if *tier == "thorough" {
		opt.timeoutS = 60
		opt.confirm = true
	}
	dischargeAll(all, opt, 16)
	bad := 0
	proved := 0
	for _, o := range all {
		ok := o.Status == "proved"
		if o.ExpectSat {
			ok = o.Status != "proved" // unsat would mean vacuous
			if ok {
				o.Status = "covered"
			} else {
				o.Status = "vacuous"
			}
		}
		if ok {
			proved++
		} else {
			bad++
		}
		if *verbose || !ok {
			fmt.Printf("%-9s %-70s %6.2fs %s %s\n", o.Status, o.Name, o.Time, o.Solver, oneLine(o.Output))
			if !ok {
				fmt.Printf("          at %s:%d  %s\n", filepath.Base(o.Pos.Filename), o.Pos.Line, o.Src)
			}
		}
	}
	fmt.Printf("functions=%d obligations=%d discharged=%d failed=%d wall=%.1fs\n", len(vcs), len(all), proved, bad, time.Since(t0).Seconds())
	_ = evdir
	_ = json.Marshal
	_ = sort.Strings
	if len(e.parseErrs) > 0 {
		return 1
	}
	if bad > 0 {
		return 1
	}
	return 0
}

func oneLine(s string) string {
	s = strings.ReplaceAll(s, "\n", " ")
	if len(s) > 100 {
		s = s[:100]
	}
	return s
}

func envOr(k, d string) string {
	if v := os.Getenv(k); v != "" {
		return v
	}
	return d
}
