package main

import (
	"bufio"
	"encoding/json"
	"flag"
	"fmt"
	"os"
	"path/filepath"
	"regexp"
	"sort"
	"strconv"
	"strings"
	"time"
)

type kfEntry struct {
	Fixed      bool
	Property   string
	ID         string
	Obligation string // exact name or prefix ending in *
	Text       string
	Line       string
	Witness    string // Go test file (relative to the verification root) that reproduces the finding natively
}

var kfRe = regexp.MustCompile(`^KNOWN-FINDING:\s+property=(\S+)\s+id=(\S+)\s+obligation=(\S+)\s+(?:witness=(\S+)\s+)?(.*)$`)
var fixedRe = regexp.MustCompile(`^fixed:\s+property=(\S+)\s+(\S+)\s+(.*)$`)

func loadKnownFindings(path string) []*kfEntry {
	f, err := os.Open(path)
	if err != nil {
		return nil
	}
	defer f.Close()
	var out []*kfEntry
	sc := bufio.NewScanner(f)
	for sc.Scan() {
		l := strings.TrimSpace(sc.Text())
		if m := kfRe.FindStringSubmatch(l); m != nil {
			out = append(out, &kfEntry{Property: m[1], ID: m[2], Obligation: m[3], Witness: m[4], Text: m[5], Line: l})
		} else if m := fixedRe.FindStringSubmatch(l); m != nil {
			out = append(out, &kfEntry{Fixed: true, Property: m[1], ID: m[2], Text: m[3], Line: l})
		}
	}
	return out
}

func (k *kfEntry) matches(prop, obl string) bool {
	if k.Fixed {
		return false
	}
	// obligation names are unique across properties: a finding anchored in a
	// function that serves several properties is the same finding in each
	_ = prop
	if strings.HasSuffix(k.Obligation, "*") {
		return strings.HasPrefix(obl, strings.TrimSuffix(k.Obligation, "*"))
	}
	return k.Obligation == obl
}

type checkOpts struct {
	repo, prop, tier, only, keep, evdir, root string
	verbose                                   bool
	seed                                      int
	overlay                                   map[string][]byte
	quiet                                     bool
	noEvidence                                bool
}

type carveOut struct{ id, fn, pred string }

type checkResult struct {
	carveOuts  []carveOut
	obls       []*Obligation
	vcs        []*VC
	failed     []*Obligation
	known      []*Obligation
	parseErrs  []string
	loadErr    error
	wall       float64
	solverTime float64
	knownCarve int
	skipped    int
	eng        *Engine
}

func cmdCheck(args []string) int {
	fs := flag.NewFlagSet("check", flag.ExitOnError)
	var o checkOpts
	fs.StringVar(&o.repo, "repo", "/repo", "repository to verify")
	fs.StringVar(&o.prop, "p", "", "property id")
	fs.StringVar(&o.tier, "tier", envOr("VERIF_TIER", "quick"), "quick|thorough")
	fs.StringVar(&o.only, "f", "", "only this function (debug)")
	fs.BoolVar(&o.verbose, "v", false, "list every obligation")
	fs.StringVar(&o.keep, "keep", "", "keep queries in this directory")
	fs.StringVar(&o.root, "root", "/verif", "verification root (evidence, replays, known findings)")
	fs.BoolVar(&o.noEvidence, "no-evidence", false, "")
	fs.Parse(args)
	o.seed, _ = strconv.Atoi(envOr("VERIF_SEED", "0"))
	o.evdir = filepath.Join(o.root, "evidence")
	if o.prop == "" && o.only == "" {
		fmt.Fprintln(os.Stderr, "check: -p <property> required")
		return 2
	}
	res := runCheck(&o)
	return report(&o, res)
}

func runCheck(o *checkOpts) *checkResult {
	t0 := time.Now()
	res := &checkResult{}
	loadNames(o.root)
	e, err := loadEngine(o.repo, o.overlay)
	if err != nil {
		res.loadErr = err
		return res
	}
	res.parseErrs = e.parseErrs
	res.eng = e
	var names []string
	for _, n := range sortedKeys(e.contracts) {
		c := e.contracts[n]
		if o.only != "" {
			if n == o.only {
				names = append(names, n)
			}
			continue
		}
		if c.Flags["trusted"] || c.Flags["assumed"] {
			continue
		}
		for _, p := range c.Props {
			if p == o.prop || o.prop == "all" {
				names = append(names, n)
				break
			}
		}
	}
	for _, n := range names {
		vc, err := e.verifyFunc(n)
		if err != nil {
			res.parseErrs = append(res.parseErrs, fmt.Sprintf("%s: %v", n, err))
			continue
		}
		res.vcs = append(res.vcs, vc)
		res.obls = append(res.obls, vc.obls...)
		if c := e.contracts[n]; c != nil {
			for _, ex := range c.Excepts {
				res.carveOuts = append(res.carveOuts, carveOut{id: ex.Name, fn: n, pred: ex.Src})
			}
		}
	}
	tmp, _ := os.MkdirTemp("", "govc")
	if o.keep != "" {
		tmp = o.keep
		os.MkdirAll(tmp, 0o755)
	} else {
		defer os.RemoveAll(tmp)
	}
	opt := solveOpts{timeoutS: 12, seed: o.seed, tmp: tmp, keep: o.keep != ""}
	if o.tier == "thorough" {
		opt.timeoutS = 60
		opt.confirm = true
	}
	e.u.freezePrelude()
	// obligations listed as known findings are expected to stay undischarged: one
	// short attempt is enough to notice that one has become provable
	for _, k := range loadKnownFindings(filepath.Join(o.root, "KNOWN_FINDINGS.txt")) {
		for _, ob := range res.obls {
			if k.matches(o.prop, ob.Name) {
				ob.Short = true
			}
		}
	}
	dischargeAll(res.obls, opt, 8)
	for _, ob := range res.obls {
		res.solverTime += ob.Time
		ok := ob.Status == "proved" || ob.Status == "skipped"
		if ob.Status == "skipped" {
			res.skipped++
		}
		if ob.ExpectSat {
			ok = ob.Status != "proved"
			if ok {
				if ob.Status == "failed" {
					ob.Status = "covered"
				} else {
					ob.Status = "cover-unknown"
				}
			} else {
				ob.Status = "vacuous"
			}
		}
		if !ok {
			res.failed = append(res.failed, ob)
		}
	}
	res.wall = time.Since(t0).Seconds()
	return res
}

func report(o *checkOpts, res *checkResult) int {
	prop := o.prop
	if prop == "" {
		prop = "debug"
	}
	if res.loadErr != nil {
		// the ghost files no longer compile against the changed repository, or the
		// repository itself does not build: nothing can be claimed
		fmt.Println("load error:", res.loadErr)
		path := writeReplay(o, prop, "load", map[string]any{"obligation": "load", "error": res.loadErr.Error()})
		fmt.Printf("VIOLATION property=%s replay=%s no-failing-input-found\n", prop, path)
		return 1
	}
	kfs := loadKnownFindings(filepath.Join(o.root, "KNOWN_FINDINGS.txt"))
	exit := 0
	for _, pe := range res.parseErrs {
		fmt.Println("contract error:", pe)
		path := writeReplay(o, prop, "stale-contract", map[string]any{"obligation": "stale-contract", "error": pe})
		fmt.Printf("VIOLATION property=%s replay=%s no-failing-input-found\n", prop, path)
		exit = 1
	}
	for _, ob := range res.obls {
		bad := false
		for _, f := range res.failed {
			if f == ob {
				bad = true
			}
		}
		if o.verbose || bad {
			fmt.Printf("%-9s %-72s %6.2fs %s %s\n", ob.Status, ob.Name, ob.Time, ob.Solver, oneLine(ob.Output))
			if bad {
				fmt.Printf("          at %s:%d  %s\n", filepath.Base(ob.Pos.Filename), ob.Pos.Line, ob.Src)
			}
		}
	}
	printedKF := map[string]bool{}
	var violations []*Obligation
	for _, ob := range res.failed {
		var hit *kfEntry
		for _, k := range kfs {
			if k.matches(prop, ob.Name) {
				hit = k
			}
		}
		if hit != nil {
			res.known = append(res.known, ob)
			if !printedKF[hit.ID] {
				printedKF[hit.ID] = true
				fmt.Printf("KNOWN-FINDING: property=%s id=%s obligation=%s %s\n", prop, hit.ID, hit.Obligation, hit.Text)
			}
			continue
		}
		violations = append(violations, ob)
	}
	// carve-outs assumed by contracts: each must be a listed finding; its witness
	// is replayed against the real code
	seenCO := map[string]bool{}
	for _, co := range res.carveOuts {
		if seenCO[co.id] {
			continue
		}
		seenCO[co.id] = true
		var hit *kfEntry
		for _, k := range kfs {
			if !k.Fixed && k.ID == co.id {
				hit = k
			}
		}
		if hit == nil {
			path := writeReplay(o, prop, "carve-out-"+co.id, map[string]any{"obligation": "unlisted carve-out " + co.id + " in the contract of " + co.fn, "predicate": co.pred})
			fmt.Printf("VIOLATION property=%s replay=%s no-failing-input-found\n", prop, path)
			exit = 1
			continue
		}
		status := "witness not replayed"
		if hit.Witness != "" {
			src, err := os.ReadFile(filepath.Join(o.root, hit.Witness))
			if err == nil {
				out, err := runOverlayTestNamed(o.repo, string(src), "TestGovcWitness")
				switch {
				case err != nil:
					status = "witness could not be run: " + err.Error()
				case strings.Contains(out, "GOVC-WITNESS: REPRODUCED"):
					status = "witness reproduced on the real code"
				default:
					status = "witness no longer reproduces (finding may have been repaired)"
				}
			}
		}
		res.knownCarve++
		if !strings.Contains(status, "no longer") {
			fmt.Printf("KNOWN-FINDING: property=%s id=%s obligation=%s %s [%s]\n", prop, hit.ID, hit.Obligation, hit.Text, status)
		} else {
			fmt.Printf("note: known finding %s: %s\n", hit.ID, status)
		}
	}
	replays := 0
	for _, ob := range violations {
		var rp map[string]any
		if ob.Status == "failed" && ob.Output == "sat" {
			replays++
		}
		if replays > 3 && ob.Status == "failed" && ob.Output == "sat" {
			// three native replays per run are enough to show the failure; the
			// remaining countermodels are reported without running them
			rp = map[string]any{"obligation": ob.Name, "kind": ob.Kind, "function": ob.Func, "clause": ob.Src, "position": ob.Pos.String(),
				"solver": ob.Solver, "solver_status": ob.Status, "solver_output": ob.Output, "confirmed": false,
				"replay_note": "not replayed: three countermodels of this run were already replayed"}
		} else {
			t1 := time.Now()
			rp = replayObligation(o, ob)
			if os.Getenv("GOVC_TIMING") != "" {
				fmt.Fprintf(os.Stderr, "TIMING replay %s %.1fs\n", ob.Name, time.Since(t1).Seconds())
			}
		}
		path := writeReplay(o, prop, ob.Name, rp)
		suffix := ""
		if c, _ := rp["confirmed"].(bool); !c {
			suffix = " no-failing-input-found"
		}
		fmt.Printf("VIOLATION property=%s replay=%s%s\n", prop, path, suffix)
		exit = 1
	}
	if !o.noEvidence && o.prop != "" {
		writeEvidence(o, res, kfs, len(violations))
	}
	if res.skipped > 0 {
		fmt.Printf("skipped %d obligations after %d came back undischarged (the verdict is settled)\n", res.skipped, maxUndischarged)
	}
	fmt.Printf("property=%s tier=%s functions=%d obligations=%d discharged=%d known-findings=%d violations=%d wall=%.1fs\n",
		prop, o.tier, len(res.vcs), len(res.obls), len(res.obls)-len(res.failed)-res.skipped, len(res.known), len(violations), res.wall)
	return exit
}

func writeReplay(o *checkOpts, prop, name string, content map[string]any) string {
	dir := filepath.Join(o.root, "replays", prop)
	os.MkdirAll(dir, 0o755)
	path := filepath.Join(dir, mangle(name)+".json")
	content["property"] = prop
	b, _ := json.MarshalIndent(content, "", " ")
	os.WriteFile(path, b, 0o644)
	return path
}

func writeEvidence(o *checkOpts, res *checkResult, kfs []*kfEntry, violations int) {
	os.MkdirAll(o.evdir, 0o755)
	bySolver := map[string]int{}
	var funcs []string
	assumed := map[string]bool{}
	inlined := map[string]bool{}
	uncontr := map[string]bool{}
	for _, vc := range res.vcs {
		funcs = append(funcs, vc.fnName)
		for k := range vc.assumed {
			assumed[k] = true
		}
		for k := range vc.inlined {
			inlined[k] = true
		}
		for k := range vc.uncontr {
			uncontr[k] = true
		}
	}
	type sample struct {
		Obligation string  `json:"obligation"`
		Kind       string  `json:"kind"`
		Status     string  `json:"status"`
		Solver     string  `json:"solver"`
		TimeS      float64 `json:"time_s"`
		QueryBytes int     `json:"query_bytes"`
		Clause     string  `json:"clause"`
	}
	var samples []sample
	byKind := map[string]int{}
	covers := 0
	proofObls, proofDone := 0, 0
	var slowest []*Obligation
	for _, ob := range res.obls {
		byKind[ob.Kind]++
		if ob.ExpectSat {
			covers++
			continue
		}
		proofObls++
		if ob.Status == "proved" {
			proofDone++
			bySolver[ob.Solver]++
		}
		slowest = append(slowest, ob)
	}
	sort.Slice(slowest, func(i, j int) bool { return slowest[i].Time > slowest[j].Time })
	for i, ob := range res.obls {
		if len(samples) < 12 && (i%max(1, len(res.obls)/12) == 0) {
			samples = append(samples, sample{ob.Name, ob.Kind, ob.Status, ob.Solver, ob.Time, len(ob.query(false)), ob.Src})
		}
	}
	var slow []sample
	for i := 0; i < len(slowest) && i < 5; i++ {
		ob := slowest[i]
		slow = append(slow, sample{ob.Name, ob.Kind, ob.Status, ob.Solver, ob.Time, 0, ob.Src})
	}
	var knownIDs []string
	for _, k := range kfs {
		if !k.Fixed && k.Property == o.prop {
			knownIDs = append(knownIDs, k.Line)
		}
	}
	// known findings are undischarged obligations that are reported, not hidden:
	// they are excluded from both counts and listed on their own
	knownN := len(res.known)
	cov := map[string]any{
		"obligations":               proofObls - knownN,
		"discharged":                proofDone,
		"checker_cmd":               fmt.Sprintf("bin/govc check -p %s -tier %s (z3-new 5.1.0 / z3 4.8.12 / cvc5 1.0.3 portfolio on SMT-LIB queries generated from go/ssa of %s)", o.prop, o.tier, o.repo),
		"trusted_base":              trustedBase(),
		"functions_under_contract":  funcs,
		"obligations_by_kind":       byKind,
		"by_solver":                 bySolver,
		"solver_time_s":             res.solverTime,
		"slowest":                   slow,
		"assumed_contracts_used":    sortedKeys(assumed),
		"inlined":                   sortedKeys(inlined),
		"uncontracted_callees":      sortedKeys(uncontr),
		"known_findings":            knownIDs,
		"known_finding_obligations": knownN,
		"vacuity_covers":            covers,
		"samples":                   samples,
		"integers":                  "mathematical Int with exact two's-complement wrap at every conversion and arithmetic instruction (64-bit int/uint)",
	}
	var assumptions []string
	inRun := map[string]bool{}
	for _, f := range funcs {
		inRun[f] = true
	}
	var modular []string
	for _, k := range sortedKeys(assumed) {
		if strings.HasPrefix(k, "contract:") {
			name := strings.TrimPrefix(k, "contract:")
			c := res.eng.contracts[name]
			switch {
			case c != nil && c.Flags["assumed"]:
				assumptions = append(assumptions, "assumed (never verified): contract of "+name)
			case inRun[name]:
				modular = append(modular, name+" (proved in this run)")
			case c != nil:
				modular = append(modular, name+" (proved under "+strings.Join(c.Props, ",")+")")
			default:
				assumptions = append(assumptions, "assumed: "+k)
			}
			continue
		}
		assumptions = append(assumptions, "assumed: "+k)
	}
	cov["callee_contracts_used_modularly"] = modular
	// the domain each function is proved on
	pre := map[string][]string{}
	for _, f := range funcs {
		if c := res.eng.contracts[f]; c != nil {
			for _, r := range c.Requires {
				pre[f] = append(pre[f], r.Name+": "+r.Src)
			}
			for _, r := range c.Assumes {
				pre[f] = append(pre[f], "assume "+r.Name+": "+r.Src)
			}
		}
	}
	cov["preconditions"] = pre
	// explicit panics the source chooses to raise are outside the no-panic claim
	for _, f := range funcs {
		if c := res.eng.contracts[f]; c != nil && c.Flags["maypanic"] {
			assumptions = append(assumptions, "explicit panic(...) statements of "+f+" are not obligations (flag maypanic)")
		}
	}
	for _, k := range sortedKeys(uncontr) {
		assumptions = append(assumptions, "uncontracted callee (havocked): "+k)
	}
	assumptions = append(assumptions, "go/ssa (x/tools v0.29.0) NaiveForm agrees with gc on the instruction subset", "SMT solvers are sound", "no unsafe, no concurrent mutation during a call")
	ev := map[string]any{
		"property_id": o.prop,
		"tier":        o.tier,
		"seed":        o.seed,
		"level":       "proof",
		"coverage":    cov,
		"assumptions": assumptions,
		"wall_s":      res.wall,
		"violations":  violations,
	}
	b, _ := json.MarshalIndent(ev, "", " ")
	os.WriteFile(filepath.Join(o.evdir, o.prop+".json"), b, 0o644)
}

func trustedBase() []string {
	return []string{
		"govc VC generator (/verif/govc)",
		"golang.org/x/tools/go/ssa v0.29.0 (NaiveForm) as the semantics of the Go source",
		"z3 5.1.0, z3 4.8.12, cvc5 1.0.3",
		"assumed contracts of standard-library functions (stdlib.go), listed per run under assumed_contracts_used",
	}
}

func oneLine(s string) string {
	s = strings.ReplaceAll(s, "\n", " ")
	if len(s) > 100 {
		s = s[:100]
	}
	return s
}

func envOr(k, d string) string {
	if v := os.Getenv(k); v != "" {
		return v
	}
	return d
}
