package main

// Solver portfolio.

import (
	"bytes"
	"context"
	"fmt"
	"os"
	"os/exec"
	"path/filepath"
	"strings"
	"sync"
	"sync/atomic"
	"time"
)

type solverSpec struct {
	name string
	argv func(file string, timeoutS int, seed int) []string
}

var solvers = []solverSpec{
	{"z3-new", func(f string, t, seed int) []string {
		return []string{"z3-new", fmt.Sprintf("-T:%d", t), fmt.Sprintf("smt.random_seed=%d", seed), fmt.Sprintf("sat.random_seed=%d", seed), f}
	}},
	{"z3", func(f string, t, seed int) []string {
		return []string{"z3", fmt.Sprintf("-T:%d", t), fmt.Sprintf("smt.random_seed=%d", seed), f}
	}},
	{"cvc5", func(f string, t, seed int) []string {
		return []string{"cvc5", "--strings-exp", fmt.Sprintf("--tlimit=%d", t*1000), fmt.Sprintf("--seed=%d", seed), f}
	}},
}

type solveResult struct {
	status string // unsat | sat | unknown | timeout | error
	solver string
	time   float64
	output string
}

func runSolver(sp solverSpec, file string, timeoutS, seed int) solveResult {
	return runSolverCtx(context.Background(), sp, file, timeoutS, seed)
}

// procSem bounds the number of solver processes running at once (the machine
// has 16 cores; oversubscription turns fast proofs into timeouts).
var procSem = make(chan struct{}, 16)

func runSolverCtx(parent context.Context, sp solverSpec, file string, timeoutS, seed int) solveResult {
	select {
	case procSem <- struct{}{}:
	case <-parent.Done():
		return solveResult{solver: sp.name, status: "timeout"}
	}
	defer func() { <-procSem }()
	ctx, cancel := context.WithTimeout(parent, time.Duration(timeoutS+2)*time.Second)
	defer cancel()
	argv := sp.argv(file, timeoutS, seed)
	cmd := exec.CommandContext(ctx, argv[0], argv[1:]...)
	var out bytes.Buffer
	cmd.Stdout = &out
	cmd.Stderr = &out
	t0 := time.Now()
	_ = cmd.Run()
	dt := time.Since(t0).Seconds()
	s := out.String()
	first := strings.TrimSpace(strings.SplitN(s, "\n", 2)[0])
	r := solveResult{solver: sp.name, time: dt, output: s}
	switch first {
	case "unsat", "sat", "unknown":
		r.status = first
	case "timeout":
		r.status = "timeout"
	default:
		if ctx.Err() != nil {
			r.status = "timeout"
		} else {
			r.status = "error"
		}
	}
	return r
}

type solveOpts struct {
	timeoutS int
	seed     int
	confirm  bool // thorough: a second solver must agree on unsat where it can answer
	tmp      string
	keep     bool
	retried  bool
}

// discharge decides one obligation.
func discharge(o *Obligation, idx int, opt solveOpts) {
	if o.Short {
		opt.timeoutS = 4
		opt.retried = true
		opt.confirm = false
	}
	// stage 0: safety obligations are usually decided by a handful of local facts
	if !o.ExpectSat && !strings.Contains(o.Goal, "(forall") && !strings.Contains(o.Goal, "(exists") {
		tq := o.queryMode(false, true)
		tf := filepath.Join(opt.tmp, fmt.Sprintf("t%05d.smt2", idx))
		if os.WriteFile(tf, []byte(tq), 0o644) == nil {
			r := raceSolvers(tf, []solverSpec{solvers[0], solvers[1]}, 1, opt.seed)
			if !opt.keep {
				os.Remove(tf)
			}
			o.Time += r.time
			if r.status == "unsat" {
				o.Status, o.Solver = "proved", r.solver+"(tight)"
				return
			}
		}
	}
	// stage 1: the whole relevant context without its quantified facts (dropping
	// hypotheses is sound; many goals follow from the ground facts alone)
	if !o.ExpectSat {
		nq := o.queryNoQuant()
		nf := filepath.Join(opt.tmp, fmt.Sprintf("n%05d.smt2", idx))
		if os.WriteFile(nf, []byte(nq), 0o644) == nil {
			r := raceSolvers(nf, []solverSpec{solvers[0], solvers[1]}, 2, opt.seed)
			if !opt.keep {
				os.Remove(nf)
			}
			o.Time += r.time
			if r.status == "unsat" {
				o.Status, o.Solver = "proved", r.solver+"(ground)"
				return
			}
		}
	}
	q := o.query(false)
	if len(q) > 4<<20 {
		o.Status, o.Output = "failed", fmt.Sprintf("cap: query of %d bytes exceeds 4 MB", len(q))
		return
	}
	file := filepath.Join(opt.tmp, fmt.Sprintf("q%05d.smt2", idx))
	if err := os.WriteFile(file, []byte(q), 0o644); err != nil {
		o.Status, o.Output = "failed", err.Error()
		return
	}
	if !opt.keep {
		defer os.Remove(file)
	}
	useCvc5 := !strings.Contains(q, "(lambda")
	if o.ExpectSat {
		// reachability covers are satisfiability questions: a short budget; an
		// inconclusive answer is reported as such and never as a failure
		r := raceSolvers(file, []solverSpec{solvers[0], solvers[1]}, 2, opt.seed)
		o.Time += r.time
		o.Solver = r.solver
		switch r.status {
		case "unsat":
			o.Status = "proved"
		case "sat":
			o.Status, o.Output = "failed", "sat"
		default:
			o.Status, o.Output = "unknown", r.status
		}
		return
	}
	// first: the two z3 versions race with a short budget (most goals take
	// milliseconds on one of them)
	first := raceSolvers(file, []solverSpec{solvers[0], solvers[1]}, 2, opt.seed)
	o.Time += first.time
	res := first
	if first.status != "unsat" && first.status != "sat" {
		// race all: the first definitive answer wins, the others are cancelled
		ctx, cancel := context.WithCancel(context.Background())
		ch := make(chan solveResult, 3)
		n := 0
		for i, sp := range solvers {
			if sp.name == "cvc5" && !useCvc5 {
				continue
			}
			n++
			go func(sp solverSpec, i int) {
				ch <- runSolverCtx(ctx, sp, file, opt.timeoutS, opt.seed+i+1)
			}(sp, i)
		}
		t0 := time.Now()
		for k := 0; k < n; k++ {
			r := <-ch
			if r.status == "unsat" || r.status == "sat" {
				res = r
				break
			}
			if res.status != "unsat" && res.status != "sat" && r.status != "error" {
				res = r
			}
		}
		cancel()
		o.Time += time.Since(t0).Seconds()
	}
	o.Solver = res.solver
	switch res.status {
	case "unsat":
		o.Status = "proved"
		if opt.confirm {
			// second opinion
			for _, sp := range solvers {
				if sp.name == res.solver || (sp.name == "cvc5" && !useCvc5) {
					continue
				}
				r2 := runSolver(sp, file, opt.timeoutS, opt.seed+7)
				if r2.status == "sat" {
					o.Status = "failed"
					o.Output = "solver disagreement: " + res.solver + " unsat, " + sp.name + " sat"
				}
				if r2.status == "unsat" {
					o.Solver = res.solver + "+" + sp.name
					break
				}
			}
		}
	case "sat":
		// the heuristic prunings drop hypotheses: a countermodel of the pruned
		// query proves nothing. Ask again with the whole context.
		full := false
		if uq := o.queryModeB(false, false, false); uq != q {
			full = true
			_ = os.WriteFile(file, []byte(uq), 0o644)
			r := raceSolvers(file, solvers, opt.timeoutS, opt.seed+3)
			o.Time += r.time
			if r.status == "unsat" {
				o.Status, o.Solver = "proved", r.solver+"(full)"
				return
			}
			if r.status != "sat" {
				o.Status, o.Solver = "unknown", r.solver
				o.Output = r.status + " (pruned query sat): " + firstLines(r.output, 3)
				return
			}
			res = r
			o.Solver = r.solver
		}
		o.Status = "failed"
		o.Output = "sat"
		// fetch a model
		mq := o.queryModeB(true, false, !full)
		mf := file + ".model.smt2"
		if os.WriteFile(mf, []byte(mq), 0o644) == nil {
			for _, sp := range solvers {
				if sp.name == res.solver {
					r := runSolver(sp, mf, opt.timeoutS, opt.seed)
					o.Model = r.output
				}
			}
			os.Remove(mf)
		}
	default:
		// a timeout is not a verdict about the code: one more attempt with a
		// different seed and twice the budget before the obligation counts as
		// undischarged
		if !opt.retried {
			o2 := opt
			o2.retried = true
			o2.timeoutS = opt.timeoutS * 5 // generous: a loaded machine must not turn a proof into an alarm
			o2.seed = opt.seed + 17
			// first the same (pruned) query with a long budget - on a loaded machine
			// the first attempt may simply have been starved; then the context
			// without the heuristic prunings
			useSolvers := solvers
			if !useCvc5 {
				useSolvers = solvers[:2]
			}
			r := raceSolvers(file, useSolvers, o2.timeoutS, o2.seed)
			o.Time += r.time
			if r.status == "unsat" {
				o.Status, o.Solver = "proved", r.solver+"(retry)"
				return
			}
			if uq := o.queryModeB(false, false, false); uq != q {
				_ = os.WriteFile(file, []byte(uq), 0o644)
				r = raceSolvers(file, useSolvers, o2.timeoutS, o2.seed+5)
				o.Time += r.time
				if r.status == "unsat" {
					o.Status, o.Solver = "proved", r.solver+"(retry, full context)"
					return
				}
				if r.status == "sat" {
					o.Status, o.Output, o.Solver = "failed", "sat", r.solver
					return
				}
			}
		}
		o.Status = "unknown"
		o.Output = res.status + ": " + firstLines(res.output, 5)
	}
}

func firstLines(s string, n int) string {
	ls := strings.Split(s, "\n")
	if len(ls) > n {
		ls = ls[:n]
	}
	return strings.Join(ls, "\n")
}

// maxUndischarged: once this many obligations have come back undischarged the
// verdict (exit 1) is settled; the remaining ones are skipped so that a check on
// a badly broken tree ends in minutes, not tens of minutes.
const maxUndischarged = 10

func dischargeAll(obls []*Obligation, opt solveOpts, par int) {
	var wg sync.WaitGroup
	sem := make(chan struct{}, par)
	var bad int32
	for i, o := range obls {
		if o.Goal == "true" {
			o.Status, o.Solver = "proved", "trivial"
			continue
		}
		if o.Kind == "spec-error" || o.Kind == "unsupported" {
			o.Status, o.Solver, o.Output = "failed", "none", o.Src
			continue
		}
		wg.Add(1)
		sem <- struct{}{}
		go func(i int, o *Obligation) {
			defer wg.Done()
			defer func() { <-sem }()
			if atomic.LoadInt32(&bad) >= maxUndischarged && !o.ExpectSat {
				o.Status, o.Solver, o.Output = "skipped", "none", "skipped: the run already has 10 undischarged obligations"
				return
			}
			discharge(o, i, opt)
			if !o.ExpectSat && o.Status != "proved" {
				atomic.AddInt32(&bad, 1)
			}
		}(i, o)
	}
	wg.Wait()
}

// raceSolvers runs the given solvers concurrently; the first definitive answer
// wins and the others are cancelled.
func raceSolvers(file string, sps []solverSpec, timeoutS, seed int) solveResult {
	ctx, cancel := context.WithCancel(context.Background())
	defer cancel()
	ch := make(chan solveResult, len(sps))
	for i, sp := range sps {
		go func(sp solverSpec, i int) { ch <- runSolverCtx(ctx, sp, file, timeoutS, seed+i) }(sp, i)
	}
	t0 := time.Now()
	var res solveResult
	for range sps {
		r := <-ch
		if r.status == "unsat" || r.status == "sat" {
			r.time = time.Since(t0).Seconds()
			return r
		}
		if res.status == "" || r.status != "error" {
			res = r
		}
	}
	res.time = time.Since(t0).Seconds()
	return res
}
