package main

// Symbolic values, state, VC accumulation, merging.

import (
	"fmt"
	"go/token"
	"go/types"
	"os"
	"regexp"
	"sort"
	"strconv"
	"strings"

	"golang.org/x/tools/go/ssa"
)

// Val is a symbolic value. SMT-level values have S set. Pointers that cannot
// be represented as one Int address (locals, interior field pointers) have P.
type Val struct {
	T       types.Type
	S       string
	P       *Ptr
	Tup     []*Val
	Fn      *ssa.Function
	Bind    []*Val
	Rng     *rangeState
	Srt     string // explicit SMT sort (ghost values without a Go type)
	ElemT   types.Type
	ElemSrt string
	KLen    int    // statically known slice length (0 = unknown)
	absName string // quantifier variable re-expressed as absolute address
	absBase string
}

type Ptr struct {
	Cell *Cell
	Ref  string     // Int address into heap of Base (when Cell == nil)
	Base types.Type // type of the object at Cell / Ref
	Path []int      // struct field path inside the base object
}

type Cell struct {
	id   int
	name string
	T    types.Type
}

type rangeState struct {
	instr   *ssa.Range
	kind    string // "map" | "string"
	m       *Val
	visCell *Cell // ghost visited set
	dom0    string
	keyT    types.Type
	valT    types.Type
}

type State struct {
	reach string
	cells map[*Cell]*Val
	heaps map[string]string
	mdom  map[string]string
	mval  map[string]string
	mcard map[string]string
	alloc string
	rh    string // ghost resource heap (interface observation state)
}

func (s *State) clone() *State {
	n := &State{reach: s.reach, alloc: s.alloc, rh: s.rh,
		cells: make(map[*Cell]*Val, len(s.cells)),
		heaps: make(map[string]string, len(s.heaps)),
		mdom:  make(map[string]string, len(s.mdom)),
		mval:  make(map[string]string, len(s.mval)),
		mcard: make(map[string]string, len(s.mcard)),
	}
	for k, v := range s.cells {
		n.cells[k] = v
	}
	for k, v := range s.heaps {
		n.heaps[k] = v
	}
	for k, v := range s.mdom {
		n.mdom[k] = v
	}
	for k, v := range s.mval {
		n.mval[k] = v
	}
	for k, v := range s.mcard {
		n.mcard[k] = v
	}
	return n
}

type Obligation struct {
	Name   string
	Kind   string
	Func   string
	Prefix int    // number of facts visible
	Hyp    string // reach condition
	Goal   string
	Pos    token.Position
	Props  []string
	Src    string // clause source / operand text
	vc     *VC
	// result
	Status    string // proved | failed | unknown
	Solver    string
	Time      float64
	Output    string
	Model     string
	Except    string
	Bounded   bool
	ExpectSat bool
	Blk       int  // block of the function under proof the obligation arises in (-1: none)
	Short     bool // listed known finding: short solver budget, no retry
}

// VC accumulates the facts and obligations generated for one function.
type VC struct {
	u             *Universe
	eng           *Engine
	fnName        string
	globals       []string // declarations and axioms visible to every obligation
	alloc0        string
	facts         []string
	obls          []*Obligation
	nfresh        int
	ncell         int
	props         []string
	assumed       map[string]bool // assumed contracts used
	inlined       map[string]bool
	uncontr       map[string]bool
	unsupp        int
	getvals       []string // terms to query in models
	pureSeen      map[string]bool
	implSeen      map[string]bool
	verifyingBody bool
	absQuant      bool // quantifiers over slice indices are rewritten to absolute addresses
	jsonAx        bool
	identAx       bool
	identsAx      bool
	nlet          int
	tnameAx       bool
	params        []*Val // entry values of the parameters (for replay)
	// control-flow provenance of facts: marks[i] says that facts from index
	// marks[i].from on were emitted while executing block marks[i].blk of the
	// function under proof (-1: outside any block)
	marks    []blkMark
	topCon   *Contract    // contract of the function under proof
	cutFacts map[int]bool // indices of facts assumed at cut points (value lemmas; frames do not need them)
	curBlk   int
	anc      map[int]map[int]bool // block → blocks with a forward path to it (itself included)
}

type blkMark struct{ from, blk int }

func (vc *VC) enterBlk(b int) {
	vc.curBlk = b
	vc.marks = append(vc.marks, blkMark{len(vc.facts), b})
}

// blockOfFacts returns, for each of the first n facts, the block it was emitted in.
func (vc *VC) blockOfFacts(n int) []int {
	out := make([]int, n)
	cur, k := -1, 0
	for i := 0; i < n; i++ {
		for k < len(vc.marks) && vc.marks[k].from <= i {
			cur = vc.marks[k].blk
			k++
		}
		out[i] = cur
	}
	return out
}

func (vc *VC) fresh(prefix, sort string) string {
	vc.nfresh++
	n := fmt.Sprintf("%s!%d", prefix, vc.nfresh)
	n = strings.Map(func(r rune) rune {
		if r == ' ' || r == '(' || r == ')' || r == '"' || r == ';' || r == '|' {
			return '_'
		}
		return r
	}, n)
	vc.facts = append(vc.facts, fmt.Sprintf("(declare-const %s %s)", n, sort))
	return n
}

var boundVarRe = regexp.MustCompile(`\b[ql]_[A-Za-z$_0-9]*_[0-9]+`)

// mentionsBound: the term has a free occurrence of a quantifier-bound variable
// of the specification evaluator (q_<name>_<depth>, declared as "(q_x_0 Sort)"
// in a binder). Such terms must stay inside their quantifier: they can be
// neither named nor assumed at top level.
func mentionsBound(t string) bool {
	if !strings.Contains(t, "q_") && !strings.Contains(t, "l_") {
		return false
	}
	for _, v := range boundVarRe.FindAllString(t, -1) {
		if !strings.Contains(t, "("+v+" ") {
			return true
		}
	}
	return false
}

func (vc *VC) assume(t string) {
	if t == "true" || t == "" {
		return
	}
	if mentionsBound(t) {
		return
	}
	vc.facts = append(vc.facts, "(assert "+t+")")
}

// define names a term (keeps queries flat and shared).
func (vc *VC) define(prefix, sort, term string) string {
	if len(term) < 48 || mentionsBound(term) {
		return term
	}
	n := vc.fresh(prefix, sort)
	vc.assume(eq(n, term))
	return n
}

func (vc *VC) newCell(name string, t types.Type) *Cell {
	vc.ncell++
	return &Cell{id: vc.ncell, name: name, T: t}
}

func (vc *VC) oblige(st *State, kind, name, goal string, pos token.Position, src string) *Obligation {
	o := &Obligation{Name: vc.fnName + "/" + kind + "/" + name, Kind: kind, Func: vc.fnName,
		Prefix: len(vc.facts), Hyp: st.reach, Goal: goal, Pos: pos, Props: vc.props, Src: src, vc: vc, Blk: vc.curBlk}
	// duplicate names get an ordinal
	cnt := 0
	for _, p := range vc.obls {
		if p.Name == o.Name || strings.HasPrefix(p.Name, o.Name+"~") {
			cnt++
		}
	}
	if cnt > 0 {
		o.Name = fmt.Sprintf("%s~%d", o.Name, cnt)
	}
	vc.obls = append(vc.obls, o)
	return o
}

func (vc *VC) unsupported(st *State, what string, pos token.Position) {
	vc.unsupp++
	vc.oblige(st, "unsupported", what, "false", pos, what)
}

// query renders the SMT-LIB text of an obligation.
func (o *Obligation) query(withModel bool) string { return o.queryMode(withModel, false) }

// queryNoQuant: the full relevant context minus every quantified fact.
func (o *Obligation) queryNoQuant() string {
	q := o.queryMode(false, false)
	var b strings.Builder
	for _, l := range strings.Split(q, "\n") {
		if strings.HasPrefix(l, "(assert") && strings.Contains(l, "(forall") && !strings.HasPrefix(l, "(assert (not ") {
			continue
		}
		b.WriteString(l)
		b.WriteByte('\n')
	}
	return b.String()
}

// queryMode: with tight set, only the definitions the goal depends on and the
// assumptions that speak about nothing else are included (no quantified
// background axioms). A proof from fewer hypotheses is still a proof; a failure
// in tight mode decides nothing and the full query is tried next.
func (o *Obligation) queryMode(withModel, tight bool) string {
	return o.queryModeB(withModel, tight, os.Getenv("GOVC_NOBLK") == "")
}

// queryModeB: byBlock switches on the heuristic prunings (control-flow
// provenance, heap-version-directed relevance, string-length bounds); without
// it only the symbol-connectivity pruning remains. With byBlock set, assumptions emitted in blocks that have no
// forward path to the obligation's block are left out (a loop body says
// nothing about the code after the loop: the state there is the havocked loop
// head). Sound like every other pruning: fewer hypotheses.
func (o *Obligation) queryModeB(withModel, tight, byBlock bool) string {
	vc := o.vc
	var b strings.Builder
	b.WriteString("; " + o.Name + "\n(set-logic ALL)\n")
	b.WriteString(vc.u.prelude())
	var body strings.Builder
	for _, f := range vc.globals {
		if tight && strings.Contains(f, "(forall") {
			continue
		}
		if byBlock && !strings.Contains(o.Hyp+o.Goal, "str.len") && strings.Contains(f, "(forall") {
			f = stripStrLenBounds(f)
		}
		body.WriteString(f)
		body.WriteByte('\n')
	}
	all := vc.facts[:o.Prefix]
	if byBlock && o.Blk != -1 && vc.anc != nil && vc.anc[o.Blk] != nil {
		anc := vc.anc[o.Blk]
		blk := vc.blockOfFacts(o.Prefix)
		kept := make([]string, 0, len(all))
		// frame obligations and frame invariants do not need the value lemmas
		// assumed at cut points
		frameLike := o.Kind == "frame"
		if strings.HasPrefix(o.Kind, "inv.") {
			cl := o.Name[strings.LastIndex(o.Name, "/")+1:]
			frameLike = isFrameClause(cl)
		}
		for i, f := range all {
			if frameLike && vc.cutFacts[i] {
				continue
			}
			if blk[i] != -1 && !anc[blk[i]] && strings.HasPrefix(f, "(assert") && strings.Contains(f, "!") {
				if os.Getenv("GOVC_DEBUG_BLK") == o.Name {
					fmt.Fprintf(os.Stderr, "DROP b%d %.200s\n", blk[i], f)
				}
				continue
			}
			kept = append(kept, f)
		}
		all = kept
		if os.Getenv("GOVC_DEBUG_BLK") != "" && !tight {
			cnt := map[int]int{}
			for i := range blk {
				cnt[blk[i]]++
			}
			fmt.Fprintf(os.Stderr, "BLK %s blk=%d anc=%v facts-per-block=%v kept=%d of %d\n", o.Name, o.Blk, anc, cnt, len(kept), o.Prefix)
		}
	}
	facts := relevantFacts(all, o.Hyp+" "+o.Goal, byBlock)
	if tight {
		facts = tightFacts(all, o.Hyp+" "+o.Goal)
	}
	stripLen := byBlock && !strings.Contains(o.Hyp+o.Goal, "str.len")
	for _, f := range facts {
		if stripLen && strings.Contains(f, "(forall") {
			f = stripStrLenBounds(f)
		}
		body.WriteString(f)
		body.WriteByte('\n')
	}
	body.WriteString("(assert " + o.Hyp + ")\n")
	body.WriteString("(assert (not " + o.Goal + "))\n")
	var user []string
	for _, a := range vc.u.axioms {
		user = append(user, "(assert "+a.smt+")")
	}
	b.WriteString(vc.u.condAxioms(body.String(), user))
	b.WriteString(body.String())
	b.WriteString("(check-sat)\n")
	if withModel {
		b.WriteString("(get-model)\n")
	}
	return b.String()
}

// ---- heap access -----------------------------------------------------------

func (vc *VC) heap(st *State, t types.Type) (key, term string) {
	key = vc.u.heapKey(t)
	if h, ok := st.heaps[key]; ok {
		return key, h
	}
	// first use: the entry heap constant (shared by all states of the run)
	n := "H0_" + key
	vc.declareGlobal(n, "(Array Int "+vc.u.sortOf(vc.u.heapKeys[key])+")")
	if vc.alloc0 != "" {
		if ax := vc.refsBelowAxiom(n, vc.u.heapKeys[key], vc.alloc0); ax != "" {
			vc.globals = appendUnique(vc.globals, "(assert "+ax+")")
		}
	}
	if ax := vc.elemWfAxiom(n, vc.u.heapKeys[key]); ax != "" {
		vc.globals = appendUnique(vc.globals, "(assert "+ax+")")
	}
	st.heaps[key] = n
	return key, n
}

func (vc *VC) declareGlobal(name, sort string) {
	d := fmt.Sprintf("(declare-const %s %s)", name, sort)
	for _, f := range vc.globals {
		if f == d {
			return
		}
	}
	vc.globals = append(vc.globals, d)
}

// refsBelowAxiom: every reference stored in heap array h is below alloc.
func (vc *VC) refsBelowAxiom(h string, t types.Type, alloc string) string {
	rs := vc.refTerms("(select "+h+" a)", t, 0)
	if len(rs) == 0 {
		return ""
	}
	var cs []string
	for _, r := range rs {
		cs = append(cs, "(< "+r+" "+alloc+")")
	}
	return fmt.Sprintf("(forall ((a Int)) (! %s :pattern ((select %s a))))", and(cs...), h)
}

func (vc *VC) mapRefsBelowAxiom(mv string, mt *types.Map, alloc string) string {
	rs := vc.refTerms("(select (select "+mv+" m) k)", mt.Elem(), 0)
	// map values satisfy their type's invariants too
	cs := vc.wfFacts("(select (select "+mv+" m) k)", mt.Elem(), 0)
	if len(rs) == 0 && len(cs) == 0 {
		return ""
	}
	for _, r := range rs {
		cs = append(cs, "(< "+r+" "+alloc+")")
	}
	return fmt.Sprintf("(forall ((m Int) (k %s)) (! %s :pattern ((select (select %s m) k))))", vc.u.sortOf(mt.Key()), and(cs...), mv)
}

func (vc *VC) mapArrays(st *State, t *types.Map) (key, dom, val, card string) {
	key = vc.u.mapKey(t)
	if d, ok := st.mdom[key]; ok {
		return key, d, st.mval[key], st.mcard[key]
	}
	c := vc.u.mapKeys[key]
	ks, vs := vc.u.sortOf(c.Key()), vc.u.sortOf(c.Elem())
	vc.declareGlobal("MD0_"+key, "(Array Int (Array "+ks+" Bool))")
	vc.declareGlobal("MV0_"+key, "(Array Int (Array "+ks+" "+vs+"))")
	vc.declareGlobal("MC0_"+key, "(Array Int Int)")
	if vc.alloc0 != "" {
		if ax := vc.mapRefsBelowAxiom("MV0_"+key, c, vc.alloc0); ax != "" {
			vc.globals = appendUnique(vc.globals, "(assert "+ax+")")
		}
	}
	st.mdom[key], st.mval[key], st.mcard[key] = "MD0_"+key, "MV0_"+key, "MC0_"+key
	return key, st.mdom[key], st.mval[key], st.mcard[key]
}

// ---- merging -----------------------------------------------------------------

func valSame(a, b *Val) bool {
	if a == b {
		return true
	}
	if a == nil || b == nil {
		return false
	}
	if a.P != nil || b.P != nil {
		if a.P == nil || b.P == nil {
			return false
		}
		if a.P.Cell != b.P.Cell || a.P.Ref != b.P.Ref || len(a.P.Path) != len(b.P.Path) {
			return false
		}
		for i := range a.P.Path {
			if a.P.Path[i] != b.P.Path[i] {
				return false
			}
		}
		return true
	}
	if len(a.Tup) != len(b.Tup) {
		return false
	}
	for i := range a.Tup {
		if !valSame(a.Tup[i], b.Tup[i]) {
			return false
		}
	}
	return a.S == b.S && a.Rng == b.Rng && a.Fn == b.Fn
}

// mergeVals merges values under the given conditions.
func (vc *VC) mergeVals(conds []string, vals []*Val, name string) (*Val, bool) {
	same := true
	for _, v := range vals[1:] {
		if !valSame(vals[0], v) {
			same = false
		}
	}
	if same {
		return vals[0], true
	}
	v0 := vals[0]
	if v0.P != nil || v0.Rng != nil || v0.Fn != nil {
		return nil, false
	}
	if len(v0.Tup) > 0 {
		out := &Val{T: v0.T}
		for i := range v0.Tup {
			var sub []*Val
			for _, v := range vals {
				if len(v.Tup) != len(v0.Tup) {
					return nil, false
				}
				sub = append(sub, v.Tup[i])
			}
			m, ok := vc.mergeVals(conds, sub, name)
			if !ok {
				return nil, false
			}
			out.Tup = append(out.Tup, m)
		}
		return out, true
	}
	for _, v := range vals {
		if v.P != nil || v.S == "" {
			return nil, false
		}
	}
	n := vc.fresh(name, vc.u.sortOf(v0.T))
	for i, v := range vals {
		vc.assume(implies(conds[i], eq(n, v.S)))
	}
	// the merged value is one of well-formed values: it is well-formed
	if v0.T != nil {
		vc.assumeWF(n, v0.T)
	}
	return &Val{T: v0.T, S: n}, true
}

func (vc *VC) mergeTerm(conds []string, terms []string, name, sort string) string {
	same := true
	for _, t := range terms[1:] {
		if t != terms[0] {
			same = false
		}
	}
	if same {
		return terms[0]
	}
	n := vc.fresh(name, sort)
	for i, t := range terms {
		vc.assume(implies(conds[i], eq(n, t)))
	}
	return n
}

// mergeStates joins states (each already carrying its own reach condition).
func (vc *VC) mergeStates(ins []*State, label string) *State {
	if len(ins) == 1 {
		return ins[0].clone()
	}
	conds := make([]string, len(ins))
	for i, s := range ins {
		conds[i] = s.reach
	}
	out := &State{cells: map[*Cell]*Val{}, heaps: map[string]string{}, mdom: map[string]string{}, mval: map[string]string{}, mcard: map[string]string{}}
	r := vc.fresh("reach_"+label, "Bool")
	vc.assume(eq(r, or(conds...)))
	out.reach = r
	// cells: keep those present in every predecessor
	var cs []*Cell
	for c := range ins[0].cells {
		all := true
		for _, s := range ins[1:] {
			if _, ok := s.cells[c]; !ok {
				all = false
			}
		}
		if all {
			cs = append(cs, c)
		}
	}
	sort.Slice(cs, func(i, j int) bool { return cs[i].id < cs[j].id })
	for _, c := range cs {
		vals := make([]*Val, len(ins))
		for i, s := range ins {
			vals[i] = s.cells[c]
		}
		m, ok := vc.mergeVals(conds, vals, c.name)
		if ok {
			out.cells[c] = m
		}
		// cells that cannot be merged are dropped: a later read fails closed
	}
	mergeMap := func(get func(*State) map[string]string, sortOf func(k string) string, prefix string, global string) map[string]string {
		res := map[string]string{}
		keys := map[string]bool{}
		for _, s := range ins {
			for k := range get(s) {
				keys[k] = true
			}
		}
		for _, k := range sortedKeys(keys) {
			terms := make([]string, len(ins))
			for i, s := range ins {
				if t, ok := get(s)[k]; ok {
					terms[i] = t
				} else {
					terms[i] = global + k
				}
			}
			res[k] = vc.mergeTerm(conds, terms, prefix+k, sortOf(k))
		}
		return res
	}
	out.heaps = mergeMap(func(s *State) map[string]string { return s.heaps }, func(k string) string {
		return "(Array Int " + vc.u.sortOf(vc.u.heapKeys[k]) + ")"
	}, "H_", "H0_")
	out.mdom = mergeMap(func(s *State) map[string]string { return s.mdom }, func(k string) string {
		return "(Array Int (Array " + vc.u.sortOf(vc.u.mapKeys[k].Key()) + " Bool))"
	}, "MD_", "MD0_")
	out.mval = mergeMap(func(s *State) map[string]string { return s.mval }, func(k string) string {
		return "(Array Int (Array " + vc.u.sortOf(vc.u.mapKeys[k].Key()) + " " + vc.u.sortOf(vc.u.mapKeys[k].Elem()) + "))"
	}, "MV_", "MV0_")
	out.mcard = mergeMap(func(s *State) map[string]string { return s.mcard }, func(k string) string { return "(Array Int Int)" }, "MC_", "MC0_")
	allocs := make([]string, len(ins))
	rhs := make([]string, len(ins))
	for i, s := range ins {
		allocs[i] = s.alloc
		rhs[i] = s.rh
	}
	out.alloc = vc.mergeTerm(conds, allocs, "alloc", "Int")
	out.rh = vc.mergeTerm(conds, rhs, "RH", "Int")
	return out
}

func appendUnique(xs []string, x string) []string {
	for _, y := range xs {
		if y == x {
			return xs
		}
	}
	return append(xs, x)
}

// elemWfAxiom: every element of heap array h satisfies its type's invariants
// (integer ranges, slice header sanity, interface representation).
func (vc *VC) elemWfAxiom(h string, t types.Type) string {
	fs := vc.wfFacts("(select "+h+" a)", t, 0)
	if len(fs) == 0 {
		return ""
	}
	return fmt.Sprintf("(forall ((a Int)) (! %s :pattern ((select %s a))))", and(fs...), h)
}

var localSymRe = regexp.MustCompile(`[A-Za-z_$.#][A-Za-z_$.#0-9]*![0-9]+`)
var defRe = regexp.MustCompile(`^\(assert \(= ([A-Za-z_$.#][A-Za-z_$.#0-9]*![0-9]+) `)
var declRe = regexp.MustCompile(`^\(declare-(?:const|fun) ([A-Za-z_$.#][A-Za-z_$.#0-9]*![0-9]+) `)

// relevantFacts keeps the facts that can matter for a goal: the definitions of
// the local symbols it mentions (transitively) and every non-definitional
// assumption that mentions a relevant local symbol or no local symbol at all.
// Dropping hypotheses is always sound (it can only make a proof harder).
func relevantFacts(facts []string, goal string, heapAware bool) []string {
	type info struct {
		syms []string
		def  string // symbol defined by this fact ("" if not a definition)
		decl string
	}
	infos := make([]info, len(facts))
	defOf := map[string][]int{}
	mention := map[string][]int{}
	for i, f := range facts {
		if m := declRe.FindStringSubmatch(f); m != nil {
			infos[i].decl = m[1]
			continue
		}
		seen := map[string]bool{}
		for _, sy := range localSymRe.FindAllString(f, -1) {
			if !seen[sy] {
				seen[sy] = true
				infos[i].syms = append(infos[i].syms, sy)
			}
		}
		if m := defRe.FindStringSubmatch(f); m != nil {
			infos[i].def = m[1]
			defOf[m[1]] = append(defOf[m[1]], i)
		} else {
			// heap and map array versions are connected to almost everything; they
			// pull in only the facts that define them (frame axioms name the new
			// version first) or state their well-formedness, never the other way round
			var heapSyms, other []string
			for _, sy := range infos[i].syms {
				if isHeapSym(sy) {
					heapSyms = append(heapSyms, sy)
				} else {
					other = append(other, sy)
				}
			}
			if heapCOI && heapAware && strings.Contains(f, "(forall") && !strings.Contains(f, "(forall ((q_") && len(heapSyms) > 0 {
				// (machine-generated frame and well-formedness axioms only: the
				// quantifiers of contracts bind q_ names and stay reachable from
				// every symbol they mention)
				// a quantified fact over heaps is about the newest version of each
				// array it mentions
				newest := map[string]string{}
				for _, h := range heapSyms {
					b, v := heapBaseVer(h)
					if cur, ok := newest[b]; ok {
						if _, cv := heapBaseVer(cur); cv >= v {
							continue
						}
					}
					newest[b] = h
				}
				for _, h := range newest {
					mention[h] = append(mention[h], i)
				}
			} else {
				for _, sy := range infos[i].syms {
					mention[sy] = append(mention[sy], i)
				}
			}
		}
	}
	rel := map[string]bool{}
	keep := make([]bool, len(facts))
	var work []string
	add := func(sy string) {
		if !rel[sy] {
			rel[sy] = true
			work = append(work, sy)
		}
	}
	for _, sy := range localSymRe.FindAllString(goal, -1) {
		add(sy)
	}
	// facts without local symbols (about parameters and entry heaps) always count
	for i, f := range facts {
		if infos[i].decl == "" && len(infos[i].syms) == 0 {
			keep[i] = true
			_ = f
		}
	}
	for len(work) > 0 {
		sy := work[len(work)-1]
		work = work[:len(work)-1]
		for _, i := range defOf[sy] {
			if !keep[i] {
				keep[i] = true
				for _, s2 := range infos[i].syms {
					add(s2)
				}
			}
		}
		for _, i := range mention[sy] {
			if !keep[i] {
				keep[i] = true
				for _, s2 := range infos[i].syms {
					add(s2)
				}
			}
		}
	}
	var out []string
	for i, f := range facts {
		if infos[i].decl != "" {
			if rel[infos[i].decl] {
				out = append(out, f)
			}
			continue
		}
		if keep[i] {
			out = append(out, f)
		}
	}
	return out
}

// tightFacts: definitional closure of the goal's local symbols plus the
// quantifier-free assumptions that mention only symbols already in the closure.
func tightFacts(facts []string, goal string) []string {
	defOf := map[string][]int{}
	syms := make([][]string, len(facts))
	isDecl := make([]string, len(facts))
	isDef := make([]bool, len(facts))
	for i, f := range facts {
		if m := declRe.FindStringSubmatch(f); m != nil {
			isDecl[i] = m[1]
			continue
		}
		seen := map[string]bool{}
		for _, sy := range localSymRe.FindAllString(f, -1) {
			if !seen[sy] {
				seen[sy] = true
				syms[i] = append(syms[i], sy)
			}
		}
		if m := defRe.FindStringSubmatch(f); m != nil {
			isDef[i] = true
			defOf[m[1]] = append(defOf[m[1]], i)
		}
	}
	rel := map[string]bool{}
	var work []string
	add := func(sy string) {
		if !rel[sy] {
			rel[sy] = true
			work = append(work, sy)
		}
	}
	for _, sy := range localSymRe.FindAllString(goal, -1) {
		add(sy)
	}
	keep := make([]bool, len(facts))
	for len(work) > 0 {
		sy := work[len(work)-1]
		work = work[:len(work)-1]
		for _, i := range defOf[sy] {
			if !keep[i] && !strings.Contains(facts[i], "(forall") {
				keep[i] = true
				for _, s2 := range syms[i] {
					add(s2)
				}
			}
		}
	}
	for i, f := range facts {
		if keep[i] || isDecl[i] != "" || isDef[i] || strings.Contains(f, "(forall") || strings.Contains(f, "(exists") {
			continue
		}
		if len(syms[i]) == 0 {
			continue
		}
		all := true
		for _, sy := range syms[i] {
			if !rel[sy] {
				all = false
				break
			}
		}
		if all {
			keep[i] = true
		}
	}
	var out []string
	for i, f := range facts {
		if isDecl[i] != "" {
			if rel[isDecl[i]] {
				out = append(out, f)
			}
			continue
		}
		if keep[i] {
			out = append(out, f)
		}
	}
	return out
}

func isHeapSym(sy string) bool {
	for _, p := range []string{"H_", "Hin_", "Hre_", "Hcp_", "MD_", "MV_", "MC_"} {
		if strings.HasPrefix(sy, p) {
			return true
		}
	}
	return false
}

func heapBaseVer(sy string) (string, int) {
	k := strings.LastIndex(sy, "!")
	if k < 0 {
		return sy, -1
	}
	n, err := strconv.Atoi(sy[k+1:])
	if err != nil {
		return sy, -1
	}
	return sy[:k], n
}

var heapCOI = os.Getenv("GOVC_NOHEAPCOI") == ""

// stripStrLenBounds replaces the conjuncts (< (str.len T) 2^62) of a quantified
// well-formedness axiom by true. Goals that do not speak about string lengths
// do not need them (values loaded from the heap carry their own ground bound),
// and each instance costs the string solver a length term.
func stripStrLenBounds(f string) string {
	const pat = "(< (str.len "
	const suf = " 4611686018427387904)"
	if !strings.Contains(f, pat) {
		return f
	}
	var b strings.Builder
	i := 0
	for {
		j := strings.Index(f[i:], pat)
		if j < 0 {
			b.WriteString(f[i:])
			break
		}
		j += i
		d, k := 0, j
		for ; k < len(f); k++ {
			if f[k] == '(' {
				d++
			} else if f[k] == ')' {
				d--
				if d == 0 {
					break
				}
			}
		}
		if k >= len(f) {
			b.WriteString(f[i:])
			break
		}
		if strings.HasSuffix(f[j:k+1], suf) {
			b.WriteString(f[i:j])
			b.WriteString("true")
		} else {
			b.WriteString(f[i : k+1])
		}
		i = k + 1
	}
	return b.String()
}
