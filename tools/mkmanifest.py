#!/usr/bin/env python3
"""Regenerates /verif/MANIFEST.json from the table below (claimed checks) and properties.jsonl."""
import json, subprocess
props = [json.loads(l)['id'] for l in open('/verif/properties.jsonl')]
hooks = subprocess.run(['git','-C','/repo','log','--format=%h %s'],capture_output=True,text=True).stdout.splitlines()
hook_commits = [l.split()[0] for l in hooks if l.split(' ',1)[1].startswith('verif:')]
TECH = "contract-based deductive verification: weakest-precondition VCs generated from go/ssa of /repo on every run, contracts as //@ comments in /repo/verif_*.go, discharged by z3/cvc5"
claimed = {
 "C07": ("URL parsing proved panic-free for every raw URL and every schema: NewURLFromRaw, NewSimpleURL, NewURL, NewParams (18 loops: every index, slice bound, make capacity, nil-map write and type assertion is a discharged obligation), parseCommaList, parseFragments, deduceRoute, SimpleURL.Path, Type.Fields; error-xor-result for NewURL/NewParams/NewURLFromRaw; a returned URL's resource type exists in the schema (given that every relationship's target exists, which Schema.Check establishes); list items produced by the parser are non-empty; NewSimpleURL/NewURL only allocate (frame proved).",
         "Assumed: url.Parse / URL.Query / Values.Get / strings.Split contracts (arbitrary result, fresh memory, Query lists are non-empty); the frame of NewParams is declared and assumed (flag noframe). Not covered: the content postconditions of NewParams (field lists without duplicates and defaulting, inclusion chains, sorting-rule prefix/totality)."),
 "C09": ("Range proved panic-free (for every collection, ID list, well-typed filter, rule list, size and number with number*size < 2^63), to return a non-nil, freshly allocated *Resources holding at most size resources, every one of which is a member of the input collection, has a listed ID (any when the list is empty) and is allowed by the filter; to only allocate (the input collection is read through Len/At only). sortedResources.Less proved against the first-difference order: the first rule on which the two values are not tied decides, ascending, '-' descending, nil before non-nil, false before true, per dynamic type (27 cases and the byte-slice loop); Sort permutes in place; Swap/Len.",
         "Not covered: exactness of the page bounds and the partition/completeness half (every selected resource appears on some page), order-independence. sort.Sort is assumed to permute the collection and order it by Less (its documented contract); the composition 'sorted by the rules' is Less's proved contract plus that assumption. Known finding KF-C09-1 (uint64, *uint64, *[]byte rules are ties; pinned by TestSortResources) is carved out of Less's contract and its native witness is replayed on every run. The Resource/Collection interface contracts are assumed of the collection's elements."),
 "C10": ("Per-kind comparison semantics (opsem) proved as postconditions of checkStr/Int/Uint/Bool/Time/Bytes/Slice/In for all inputs; checkVal's dispatch proved per dynamic type (30 types + nil); Filter.IsAllowed proved equal to the one-level unfolding of the logical reading (and/or/in/has/comparison) with recursive calls by contract; trichotomy, complementarity and unknown-operator laws as lemmas over those contracts.",
         "Assumed: bytes.Compare is the lexicographic order, sort.Strings sorts in place, time.Equal/Before/After compare instants; the Resource interface contract (typing of Get); partial correctness of the recursion (acyclic trees); filter trees whose comparison leaves are not on to-many relationships (checkSlice sorts in place; its own contract is proved separately)."),
 "C12": ("Frame obligations proved: Schema.GetType, HasType, Check, Rels (with buildRels and its sort closure), NewURLFromRaw, NewSimpleURL, NewURL, UnmarshalIdentifier and UnmarshalIdentifiers write nothing that existed before the call (every heap and every map, compared below the entry allocation counter); they only allocate. With no write to shared locations there is no pair of conflicting accesses between goroutines running these operations on one schema.",
         "PARTIAL: NewParams' frame is declared and assumed; resource/document/partial unmarshaling, Type.New (calls the user's NewFunc) and MarshalDocument are not covered. Data-race freedom is the stated meta-argument over the frames (Go memory model), not an explored schedule."),
 "C14": ("Representation invariant schemaWf (unique non-empty type names, per-type attribute/relationship maps keyed by name with valid kinds and non-empty targets, no two types sharing a map) proved to be preserved by AddType, RemoveType, AddAttr, RemoveAttr, AddRel, RemoveRel, AddTwoWayRel and Type.AddAttr/RemoveAttr/AddRel/RemoveRel, with no panic; error returns leave the schema unchanged (deep comparison); removal of something absent changes nothing; HasType/GetType agree with the list; AddTwoWayRel succeeds when types exist and names are free, for either direction and inside one type, and leaves both sides holding the relationship and its inverse. Induction over histories is the invariant preservation.",
         "Assumed: fmt.Errorf/errors.New return non-nil errors; arguments of AddType are well-formed types whose maps are not shared with the schema (domain of the property)."),
 "C15": ("Schema.Check proved, for every schema and every map iteration order, to return an empty list exactly when the schema is coherent (every target type exists and every relationship naming an inverse is declared from its own type and reciprocated by a relationship of the target type that names it back and points back), to never panic and to write nothing that existed before the call (frame obligations); Schema.GetType/HasType agree with the list of types.",
         "Not covered: the count 'at least one error per offending relationship' (no cardinality reasoning); fmt.Errorf returns a non-nil error."),
 "C17": ("SoftResource against its representation invariant and the Resource interface: check() proved to create the lazily allocated parts, fill in exactly the kind's zero value for fields without an entry and keep every stored field value; Get returns the stored value / zero value / id / nil; Set stores exactly the well-typed values (dynamic type equals the schema's Go type), maps untyped nil to the typed nil of nullable kinds and leaves every other field alone; typing of stored values is preserved; AddAttr/AddRel/RemoveField/Attr/Rel/GetType/SetID/GetID/New; GetZeroValue, GetAttrType, GetAttrTypeString tables for all 28 kinds.",
         "Not covered deductively: Wrapper (reflect-driven) and therefore the soft/wrapped indistinguishability, Equal/EqualStrict (sort + reflect.DeepEqual). Assumed: fmt.Sprintf(\"%T\") prints distinct names for distinct types (table), maps hold fewer than 2^56 entries."),
 "C18": ("Separation postconditions: Type.Copy, SoftResource.Copy, SoftResource.New and copyData return objects whose type, attribute/relationship maps, data map and every byte string / ID list backing array are freshly allocated (address at or above the allocation counter at entry) with equal content; every mutator's frame (modifies clause, proved) is confined to the resource's own objects, so operations on one cannot change what is read from the other.",
         "Not covered: Wrapper.Copy/New (reflect). Pointer-valued attributes share their (immutable through the API) pointee."),
 "C19": ("SoftCollection as an ordered list: Len/At (nil outside the range, negative included), Resource (first match), Remove (deletes the first element with that ID and nothing else: length, prefix and shifted suffix), Add (appends a fresh resource bound to the collection's type with the given ID; prefix unchanged), SetType (rebinds every stored resource), AddAttr/AddRel; the invariant 'every stored resource is non-nil, well-formed and bound to the collection's type' is preserved.",
         "Value snapshot of Add is covered through SoftResource.Set's contract per field, not restated as one postcondition of Add; the Resource interface contract is assumed of the added resource (reads do not write client-visible memory)."),
 "C06": ("Attr.UnmarshalToType proved faithful against the assumed codec contracts: for each of the 28 kinds an accepted payload is an integer literal within the declared width/signedness stored unchanged (narrowing conversions included), true/false, a JSON string / RFC 3339 time / base64 string decoded by encoding/json; null only for nullable kinds (as nil); the result has exactly the schema's Go type; error xor value.",
         "Assumed: strconv.Atoi/ParseInt/ParseUint return the literal's value iff it is in range, json.Unmarshal into string/time/[]byte is a function of the text and a no-op on null; payload fragments are whitespace-trimmed RawMessages. Known findings KF-C05-1 (bytes panic, pinned by a test) and KF-C06-1 (null accepted for non-nullable bytes, pinned by a test). The re-marshal law and relationship linkage are not covered."),
 "C16": ("Strongest postconditions on Rel.Invert / Rel.Normalize proved for all inputs from the real SSA; the property's laws (involution, idempotence, either-or, one-way untouched, agreement with the inverse) proved as lemmas over those contracts. Schema.Rels / buildRels proved to list Normalize(r) for every relationship, nothing else, without duplicates, sorted by (type name, relationship name) with the comparison closure proved to be that order.",
         "Strings are SMT sequences compared lexicographically (byte order). sort.Slice is assumed to permute in place and to sort with respect to the closure's proved contract; uniqueness of a sorted duplicate-free list under a total order (hence independence of build order) is the standard argument, not machine-checked here."),
}
na = {
 "C01": "needs MarshalResource/UnmarshalResource under contract plus codec inverse laws; the marshal side was not brought under contract in this revision (DESIGN.md §0)",
 "C02": "needs MarshalDocument/UnmarshalDocument under contract; not done in this revision (DESIGN.md §0)",
 "C03": "MarshalDocument/MarshalResource (ghost argument of json.Marshal) not brought under contract in this revision (DESIGN.md §0)",
 "C04": "MarshalResource not brought under contract in this revision (DESIGN.md §0)",
 "C05": "only Attr.UnmarshalToType and UnmarshalIdentifier(s) are proved; UnmarshalResource/Document/Collection and NewRequest are not, so the property as a whole is not claimed (the two known findings are reported under C06)",
 "C11": "depends on the marshal contracts of C03/C04, which were not written in this revision",
 "C13": "UnmarshalPartialResource has a full contract and invariants, but 20 of its 199 obligations exceed the quick solver budget (cvc5 needs 15-20 s); not claimed rather than claimed with timeouts",
 "C20": "Check/BuildType/Wrap are driven by package reflect, outside the verifier's subset; the bounded stand-ins planned in DESIGN.md §3.10 were not built",
 "C08": "The law parse(String(u)) = u is a statement about net/url and encoding/json parsing; a contract that could express it would be a hand-written model of those parsers (DESIGN.md §5).",
}
checks = []
for p in props:
    if p in claimed:
        text, note = claimed[p]
        checks.append({
            "property_id": p,
            "quick_cmd": f"bin/govc check -p {p} -tier quick",
            "thorough_cmd": f"bin/govc check -p {p} -tier thorough",
            "evidence_file": f"/verif/evidence/{p}.json",
            "replay_cmd_template": "bin/govc replay {path}",
            "engine": "govc",
            "level_claimed": {"category": "proof", "text": text, "design_ref": f"DESIGN.md §4 {p}"},
            "level_note": "Trusted: govc (VC generator), go/ssa NaiveForm as the semantics of the source, the SMT solvers. " + note,
            "technique": TECH,
        })
not_app = [{"property_id": p, "reason": na.get(p, "not yet under contract in this revision (work in progress, see DESIGN.md §9); no check is registered so nothing is claimed")} for p in props if p not in claimed]
m = {
 "version": 1,
 "setup_cmd": "cd /verif/govc && GOFLAGS=-mod=vendor GOPROXY=off GOSUMDB=off GOTOOLCHAIN=local go build -o /verif/bin/govc .",
 "hooks": {
  "guard": "verif",
  "enable": "govc loads /repo with -tags=verif; contracts (//@ comments) and ghost lemma functions live in /repo/verif_*.go behind //go:build verif",
  "baseline_off_cmd": "cd /repo && GOFLAGS=-mod=mod GOPROXY=off GOSUMDB=off go test -json -vet=off -count=1 -timeout 25m ./...",
  "source_commits": hook_commits,
  "add_only": True,
 },
 "engines": [{"name": "govc", "path": "/verif/govc", "serves_properties": sorted(claimed), "kind_free_text": "contract-based deductive verifier for Go written for this task: VC generation by symbolic execution of go/ssa (NaiveForm) built from /repo on every run, contracts as //@ comments in /repo/verif_*.go, obligations discharged by a z3 5.1 / z3 4.8 / cvc5 portfolio"}],
 "checks": checks,
 "not_applicable": not_app,
 "notes": "Genuine defects found by failing obligations were repaired by fix: commits in /repo and are listed in /verif/KNOWN_FINDINGS.txt. tools/selftest.sh runs the must-fail corpus (/verif/mutants).",
}
json.dump(m, open('/verif/MANIFEST.json','w'), indent=1)
print("claimed:", sorted(claimed), "hooks:", hook_commits)
