#!/usr/bin/env python3
"""Regenerates /verif/MANIFEST.json from the table below (claimed checks) and properties.jsonl."""
import json, subprocess
props = [json.loads(l)['id'] for l in open('/verif/properties.jsonl')]
hooks = subprocess.run(['git','-C','/repo','log','--format=%h %s'],capture_output=True,text=True).stdout.splitlines()
hook_commits = [l.split()[0] for l in hooks if l.split(' ',1)[1].startswith('verif:')]
TECH = "contract-based deductive verification: weakest-precondition VCs generated from go/ssa of /repo on every run, contracts as //@ comments in /repo/verif_*.go, discharged by z3/cvc5"
claimed = {
 "C10": ("Per-kind comparison semantics (opsem) proved as postconditions of checkStr/Int/Uint/Bool/Time/Bytes/Slice/In for all inputs; checkVal's dispatch proved per dynamic type (30 types + nil); Filter.IsAllowed proved equal to the one-level unfolding of the logical reading (and/or/in/has/comparison) with recursive calls by contract; trichotomy, complementarity and unknown-operator laws as lemmas over those contracts.",
         "Assumed: bytes.Compare is the lexicographic order, sort.Strings sorts in place, time.Equal/Before/After compare instants; the Resource interface contract (typing of Get); partial correctness of the recursion (acyclic trees); filter trees whose comparison leaves are not on to-many relationships (checkSlice sorts in place; its own contract is proved separately)."),
 "C14": ("Representation invariant schemaWf (unique non-empty type names, per-type attribute/relationship maps keyed by name with valid kinds and non-empty targets, no two types sharing a map) proved to be preserved by AddType, RemoveType, AddAttr, RemoveAttr, AddRel, RemoveRel, AddTwoWayRel and Type.AddAttr/RemoveAttr/AddRel/RemoveRel, with no panic; error returns leave the schema unchanged (deep comparison); removal of something absent changes nothing; HasType/GetType agree with the list; AddTwoWayRel succeeds when types exist and names are free, for either direction and inside one type, and leaves both sides holding the relationship and its inverse. Induction over histories is the invariant preservation.",
         "Assumed: fmt.Errorf/errors.New return non-nil errors; arguments of AddType are well-formed types whose maps are not shared with the schema (domain of the property)."),
 "C16": ("Strongest postconditions on Rel.Invert / Rel.Normalize proved for all inputs from the real SSA; the property's laws (involution, idempotence, either-or, one-way untouched, agreement with the inverse) proved as lemmas over those contracts.",
         "Strings are SMT sequences compared lexicographically (byte order)."),
}
na = {
 "C08": "The law parse(String(u)) = u is a statement about net/url and encoding/json parsing; a contract that could express it would be a hand-written model of those parsers (DESIGN.md §5).",
}
checks = []
for p in props:
    if p in claimed:
        text, note = claimed[p]
        checks.append({
            "property_id": p,
            "quick_cmd": f"bin/govc check -p {p} -tier quick",
            "thorough_cmd": f"bin/govc check -p {p} -tier thorough",
            "evidence_file": f"/verif/evidence/{p}.json",
            "replay_cmd_template": "bin/govc replay {path}",
            "engine": "govc",
            "level_claimed": {"category": "proof", "text": text, "design_ref": f"DESIGN.md §4 {p}"},
            "level_note": "Trusted: govc (VC generator), go/ssa NaiveForm as the semantics of the source, the SMT solvers. " + note,
            "technique": TECH,
        })
not_app = [{"property_id": p, "reason": na.get(p, "not yet under contract in this revision (work in progress, see DESIGN.md §9); no check is registered so nothing is claimed")} for p in props if p not in claimed]
m = {
 "version": 1,
 "setup_cmd": "cd /verif/govc && GOFLAGS=-mod=vendor GOPROXY=off GOSUMDB=off GOTOOLCHAIN=local go build -o /verif/bin/govc .",
 "hooks": {
  "guard": "verif",
  "enable": "govc loads /repo with -tags=verif; contracts (//@ comments) and ghost lemma functions live in /repo/verif_*.go behind //go:build verif",
  "baseline_off_cmd": "cd /repo && GOFLAGS=-mod=mod GOPROXY=off GOSUMDB=off go test -json -vet=off -count=1 -timeout 25m ./...",
  "source_commits": hook_commits,
  "add_only": True,
 },
 "engines": [{"name": "govc", "path": "/verif/govc", "serves_properties": sorted(claimed), "kind_free_text": "contract-based deductive verifier for Go written for this task: VC generation by symbolic execution of go/ssa (NaiveForm) built from /repo on every run, contracts as //@ comments in /repo/verif_*.go, obligations discharged by a z3 5.1 / z3 4.8 / cvc5 portfolio"}],
 "checks": checks,
 "not_applicable": not_app,
 "notes": "Genuine defects found by failing obligations were repaired by fix: commits in /repo and are listed in /verif/KNOWN_FINDINGS.txt. tools/selftest.sh runs the must-fail corpus (/verif/mutants).",
}
json.dump(m, open('/verif/MANIFEST.json','w'), indent=1)
print("claimed:", sorted(claimed), "hooks:", hook_commits)
