#!/bin/bash
# usage: seedcheck.sh <prop> <k> [props-to-check...]  — verifies a seeded change delivered in /tmp/seed-<prop>/out and runs govc on it
prop=$1; k=$2; shift 2; checks=${@:-$prop}
out=/tmp/seed-$prop/out
export GOFLAGS=-mod=mod GOPROXY=off GOSUMDB=off GOTOOLCHAIN=local
d=$(mktemp -d /tmp/seedchk.XXXXXX); trap 'git -C /repo worktree remove --force $d/wt 2>/dev/null; rm -rf $d' EXIT
git -C /repo worktree add -q --detach $d/wt HEAD
cd $d/wt
test=$(grep -o "func TestSeed[A-Za-z0-9_]*" $out/demo${k}_test.go | head -1 | sed 's/func //')
cp $out/demo${k}_test.go ./zz_seed_demo_test.go
base=$(go test -vet=off -count=1 -run "^${test}\$" . 2>&1 | tail -1)
rm zz_seed_demo_test.go
if ! git apply $out/patch$k.diff; then echo "RESULT apply=FAILED"; exit 2; fi
suite=$(go test -vet=off -count=1 ./... 2>&1 | tail -2 | tr '\n' ' ')
cp $out/demo${k}_test.go ./zz_seed_demo_test.go
demo=$(go test -vet=off -count=1 -run "^${test}\$" . 2>&1 | tail -1)
rm zz_seed_demo_test.go
echo "RESULT test=$test | unpatched-demo: $base | patched-suite: $suite | patched-demo: $demo"
git diff > $d/p.diff
for c in $checks; do
  r=$(/verif/tools/mutant.sh $d/p.diff $c -no-evidence 2>&1); rc=$?
  echo "GOVC $c rc=$rc: $(echo "$r" | grep -m3 '^\(failed\|unknown\|vacuous\|load\|contract\)' | awk '{print $1,$2}' | tr '\n' ';')"
done
