#!/bin/bash
# usage: mutant.sh <patch-file> <property> [extra govc args]
# Applies the patch to a scratch copy of /repo (outside /repo and /verif), runs the
# property's check against it, removes the copy. Exit status is govc's.
set -u
patch=$(readlink -f "$1"); prop=$2; shift 2
d=$(mktemp -d /tmp/govc-mutant.XXXXXX)
trap '[ -n "${KEEP:-}" ] && { rm -rf "$d/repo"; echo "kept $d/root"; } || rm -rf "$d"' EXIT
mkdir -p "$d/repo" "$d/root"
(cd /repo && git ls-files -z --cached --others --exclude-standard | xargs -0 cp --parents -t "$d/repo") 
cp /verif/KNOWN_FINDINGS.txt /verif/names.json "$d/root/" 2>/dev/null
if ! (cd "$d/repo" && patch -p1 -s < "$patch"); then echo "PATCH-FAILED"; exit 3; fi
/verif/bin/govc check -repo "$d/repo" -root "$d/root" -p "$prop" "$@"
