#!/bin/bash
# Must-fail corpus: every patch under /verif/mutants/<prop>/ must make the property's check exit 1.
# usage: selftest.sh [prop ...]
cd /verif
props=${@:-$(ls mutants)}
fail=0
run() { p=$1; f=$2; out=$(tools/mutant.sh "$f" "$p" -no-evidence 2>&1); rc=$?; 
  if [ $rc -eq 1 ] && echo "$out" | grep -q "^VIOLATION property=$p"; then echo "caught   $p $(basename $f .patch): $(echo "$out" | grep -m1 '^\(failed\|unknown\|vacuous\)' | awk '{print $1,$2}')"; 
  else echo "MISSED   $p $(basename $f .patch) (rc=$rc)"; echo "$out" | tail -3; return 1; fi; }
export -f run
for p in $props; do for f in mutants/$p/*.patch; do echo "$p $f"; done; done | xargs -P 6 -L 1 bash -c 'run $0 $1' | sort | tee /tmp/selftest.out
if grep -q "^MISSED" /tmp/selftest.out; then exit 1; fi
exit 0
