#!/bin/bash
# Must-fail corpus: every patch under /verif/mutants/<prop>/ (and every seeded change under
# /verif/seeded/<prop>-<k>/) must make the property's check exit 1 with a VIOLATION line.
# usage: selftest.sh [prop ...]
cd /verif
props=${@:-$( (ls mutants; ls seeded | sed "s/-.*//") | sort -u)}
run() { p=$1; f=$2; out=$(tools/mutant.sh "$f" "$p" -no-evidence 2>&1); rc=$?;
  n=$(echo "$out" | grep -c "^VIOLATION property=$p"); c=$(echo "$out" | grep "^VIOLATION property=$p" | grep -vc "no-failing-input-found");
  if [ $rc -eq 1 ] && [ $n -gt 0 ]; then echo "caught   $p $(basename $(dirname $f))/$(basename $f .patch) violations=$n replayed=$c first: $(echo "$out" | grep -m1 '^\(failed\|unknown\|vacuous\)' | awk '{print $1,$2}')";
  else echo "MISSED   $p $f (rc=$rc)"; echo "$out" | tail -3; fi; }
export -f run
{ for p in $props; do for f in mutants/$p/*.patch; do [ -f "$f" ] && echo "$p $f"; done; for d in seeded/$p-*; do [ -d "$d" ] || continue; f=$d/patch.diff; [ -f $d/patch_adapted.diff ] && f=$d/patch_adapted.diff; echo "$p $f"; done; done; } | xargs -P 6 -L 1 bash -c 'run $0 $1' | sort | tee /tmp/selftest.out
if grep -q "^MISSED" /tmp/selftest.out; then exit 1; fi
exit 0
