#!/usr/bin/env python3
"""archive_seed.py <prop> <k> <caught:yes|no> <obligations/notes>: copy a verified seeded change into /verif/seeded/<prop>-<k>/"""
import sys, os, shutil, json, re
prop, k, caught, notes = sys.argv[1:5]
src = f'/tmp/seed-{prop}/out'
dst = f'/verif/seeded/{prop}-{k}'
os.makedirs(dst, exist_ok=True)
shutil.copy(f'{src}/patch{k}.diff', f'{dst}/patch.diff')
shutil.copy(f'{src}/demo{k}_test.go', f'{dst}/demo_test.go')
readme = open(f'{src}/README.md').read()
meta = {
 "property": prop,
 "source": "independent sub-agent given only the property text and a scratch worktree of /repo without the verif_*.go files",
 "description_by_author": readme,
 "verified_by": "tools/seedcheck.sh: demo passes on the unpatched tree; with the patch the full existing suite passes and the demo fails; then bin/govc check run on a scratch copy with the patch applied",
 "detected_by_check": caught == "yes",
 "failing_obligations_or_notes": notes,
}
json.dump(meta, open(f'{dst}/meta.json','w'), indent=1)
print(dst)
