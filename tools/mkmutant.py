#!/usr/bin/env python3
"""mkmutant.py <prop> <name> <file> <old> <new> [count]: write /verif/mutants/<prop>/<name>.patch
replacing the first (or count-th, 1-based) occurrence of <old> by <new> in /repo/<file>."""
import sys, difflib, os
prop, name, f, old, new = sys.argv[1:6]
nth = int(sys.argv[6]) if len(sys.argv) > 6 else 1
src = open('/repo/' + f).read()
old = old.encode().decode('unicode_escape'); new = new.encode().decode('unicode_escape')
idx = -1
for _ in range(nth):
    idx = src.find(old, idx + 1)
    if idx < 0:
        sys.exit('pattern not found')
dst = src[:idx] + new + src[idx + len(old):]
d = ''.join(difflib.unified_diff(src.splitlines(True), dst.splitlines(True), 'a/' + f, 'b/' + f))
os.makedirs(f'/verif/mutants/{prop}', exist_ok=True)
open(f'/verif/mutants/{prop}/{name}.patch', 'w').write(d)
print(d)
