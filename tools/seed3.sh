#!/bin/bash
# usage: seed3.sh <prop> <k>  — takes the uncommitted change + seed_demo_test.go left by a sub-agent in
# /tmp/seed3-<prop>, confirms it in a fresh worktree of /repo HEAD (demo passes unpatched; suite passes and
# demo fails patched), runs the property's quick check on a scratch copy with the patch applied, and stores
# patch.diff + demo under /verif/seeded/<prop>-<k>/ (meta.json is written by hand afterwards).
set -u
p=$1; k=$2
export GOFLAGS=-mod=mod GOPROXY=off GOSUMDB=off GOTOOLCHAIN=local
w=/tmp/seed3-$p; o=/verif/seeded/$p-$k; mkdir -p $o
(cd $w && git checkout -q -- 'verif_*.go' && git diff > $o/patch.diff && cp seed_demo_test.go $o/seed_demo_test.go)
git -C /repo worktree remove --force $w
d=/tmp/seed3chk-$p; git -C /repo worktree add -q --detach $d HEAD; cd $d
cp $o/seed_demo_test.go zz_seed_demo_test.go
echo "$p unpatched demo: $(go test -vet=off -count=1 -run 'TestSeedDemo$' . 2>&1 | tail -n 1)"
rm zz_seed_demo_test.go; git apply $o/patch.diff || echo APPLYFAIL
echo "$p patched suite: $(go test -vet=off -count=1 ./... 2>&1 | tail -n 2 | tr '\n' ' ')"
cp $o/seed_demo_test.go zz_seed_demo_test.go
echo "$p patched demo: $(go test -vet=off -count=1 -run 'TestSeedDemo$' . 2>&1 | tail -n 1)"
cd /; git -C /repo worktree remove --force $d; git -C /repo worktree prune
r=$(/verif/tools/mutant.sh $o/patch.diff $p -no-evidence 2>&1); rc=$?
echo "GOVC $p rc=$rc"; echo "$r" | grep -m6 '^\(failed\|unknown\|vacuous\|spec\|contract\|load\)' | cut -c1-150; echo "$r" | tail -n 1
