package jsonapi

import (
	"fmt"
	"testing"
)

// Witness of KF-C09-1: sorting by a uint64 (or *uint64, *[]byte) attribute is
// silently a tie: sortedResources.Less has no case for these kinds.
func TestGovcWitness(t *testing.T) {
	typ := &Type{Name: "t"}
	_ = typ.AddAttr(Attr{Name: "n", Type: AttrTypeUint64})
	a := &SoftResource{Type: typ}
	a.SetID("a")
	a.Set("n", uint64(2))
	b := &SoftResource{Type: typ}
	b.SetID("b")
	b.Set("n", uint64(1))
	col := &SoftCollection{}
	col.SetType(typ)
	col.Add(a)
	col.Add(b)
	page := Range(col, nil, nil, []string{"n", "id"}, 10, 0)
	first := page.At(0).Get("id").(string)
	if first != "b" {
		fmt.Println("GOVC-WITNESS: REPRODUCED: resources sorted by uint64 attribute n come out as", first, "first although n(b)=1 < n(a)=2")
	} else {
		fmt.Println("GOVC-WITNESS: NOT REPRODUCED")
	}
}
